#!/usr/bin/env python3
"""Compose /verif/MANIFEST.json from the property modules that exist under vf/props."""
import json, os, re, sys
sys.path.insert(0, '/verif')
props = [json.loads(l) for l in open('/verif/properties.jsonl')]
TECH = {
 'C01': 'runtime monitor: grammar/selection oracle over messages of real runs + exhaustive table-driven calls of the real metar_msg',
 'C02': 'runtime monitor: suppression/NCD-NSC oracle over messages, tables, flag and input of real runs + exhaustive okta tables',
 'C03': 'runtime monitor: recount oracle over per-hit assignments; exhaustive (count,total) enumeration; monotonicity along chains',
 'C04': 'runtime monitor: bit-exact recomputation of bases/statistics from member hits + icontract post-conditions on helpers',
 'C05': 'runtime monitor: conservation / exactly-once audit at quiescent points after each stage + icontract on ncomp_from_gmm',
 'C06': 'runtime monitor: separation oracle on reported bases with recorded raw mixture-component counts and merge events',
 'C07': 'metamorphic twin-run monitor (three related executions compared bit-wise) + conservation check of kept hits',
 'C08': 'crash/exception-type monitor with CPU-time watchdog over the widest generated workload + refusal inputs',
 'C09': 'cross-process digest comparison (4 processes: hash seeds, RNG states, case order, process histories incl. same data with other parameters and global-route history) + RNG-state bracket monitor + seed-call spy',
 'C10': 'metamorphic twin-run monitor over index relabellings, column layouts and dtype variants',
 'C11': 'snapshot-bracket monitor around every call + history monitor against a reference model of parameter snapshots',
 'C12': 'differential monitor over the parameter routes with a poisoned global + reference model of reset_prms',
 'C13': 'exhaustive stage interleavings + threads under a controlled sys.monitoring scheduler (line / call / return yield points, PCT, random walk, atomicity probes at static sites), each chunk compared with its digest from a fresh process',
 'C14': 'history monitor: breadth-first walk of the reachable state graph of the real chunk (closure = all call sequences) judged edge by edge against an executable reference model built from the canonical run',
 'C15': 'differential monitor: real input screening vs an independent reference implementation over defect-injected frames',
 'C16': 'metamorphic twin-run monitor under bijective ceilometer renamings',
 'C17': 'exhaustive enumeration of okta sequences through the real function vs an independent fold; call histories (caller edits, failing calls), numpy integer types, DEBUG logging; in-situ icontract',
 'C18': 'exhaustive enumeration of n/m percentages, height grid and boundary neighbours through the real functions; input dtypes, aliasing, process history, DEBUG logging',
 'C19': 'runtime monitor: order/round-trip/continuity/NaN oracles over generated arrays through the real scaler + in-situ icontract',
 'C20': 'side-effect bracket monitor (rcParams, figures, files, chunk digest, globals) around the real diagnostic()',
}
checks, na = [], []
for p in props:
    pid = p['id']
    path = '/verif/vf/props/%s.py' % pid.lower()
    if not os.path.exists(path):
        na.append({'property_id': pid, 'reason': 'check not built yet (planned, see DESIGN.md section 2)'})
        continue
    mod = __import__('vf.props.' + pid.lower(), fromlist=['x'])
    ex = getattr(mod, 'EXHAUSTIVE', None)
    text = ('Exploration by runtime monitoring: the real code is executed on generated / engineered / enumerated '
            'workloads and a deterministic oracle decides every observed execution; held on what was observed, '
            'not a proof. ' + (mod.RULE if len(mod.RULE) <= 900 else mod.RULE[:900].rsplit('. ', 1)[0] + '. [...] (full rule: coverage.rule in the evidence file)'))
    if ex:
        text += ' Finite sub-domain enumerated completely: ' + ex['thorough'] + '.'
    checks.append({
        'property_id': pid,
        'quick_cmd': './check %s quick' % pid,
        'thorough_cmd': './check %s thorough' % pid,
        'evidence_file': '/verif/evidence/%s.json' % pid,
        'replay_cmd_template': './check %s --replay {path}' % pid,
        'engine': 'vf',
        'level_claimed': {'category': 'exploration', 'text': text, 'design_ref': 'DESIGN.md section 2, ' + pid},
        'level_note': 'Trusted base: the oracle in vf/oracles.py / vf/props/%s.py, numpy/pandas for the recomputation, '
                      'the generators; assumptions: %s' % (pid.lower(), '; '.join(getattr(mod, 'ASSUMPTIONS', [])) or 'none'),
        'technique': TECH[pid],
    })
man = {
 'version': 1,
 'setup_cmd': './check setup',
 'hooks': {'guard': 'AMPYCLOUD_VERIF', 'enable': 'no hook was needed in the repository: every observation point is reached by '
           'replacing module attributes / wrapping functions from the harness (vf/instrument.py); checks export AMPYCLOUD_VERIF=1 for uniformity',
           'baseline_off_cmd': 'cd /repo && env -u AMPYCLOUD_VERIF /venv/bin/python -m pytest -ra -q -p no:cacheprovider --timeout=900 --continue-on-collection-errors',
           'source_commits': [], 'add_only': True},
 'engines': [{'name': 'vf', 'path': '/verif/vf', 'serves_properties': [c['property_id'] for c in checks],
              'kind_free_text': 'Python runtime-monitoring framework: seeded workload generators, recording wrappers + icontract contracts, '
                                'deterministic oracles, sharded subprocess runner, evidence/replay writer, known-findings classifier'}],
 'checks': checks,
 'not_applicable': na,
 'notes': 'Repository fixes (genuine defects found by the monitors) are separate "fix:" commits in /repo, listed in known_findings.json (fixed). '
          'Open known finding: D8 (C08). Exit codes: 0 held, 1 violation, 2 inconclusive.',
}
json.dump(man, open('/verif/MANIFEST.json', 'w'), indent=1)
print(len(checks), 'checks;', len(na), 'not yet built')
