#!/usr/bin/env python3
"""Run every seeded change against the check of its own property (or the listed checks).
usage: seed_matrix.py [quick|thorough] [ids...]   -> updates /verif/seeded/RESULTS.json"""
import json, os, subprocess, sys, concurrent.futures as cf
tier = 'quick'
args = sys.argv[1:]
if args and args[0] in ('quick', 'thorough'):
    tier = args.pop(0)
root = '/verif/seeded'
ids = args or sorted(d for d in os.listdir(root) if os.path.isfile(os.path.join(root, d, 'meta.json')))
path = os.path.join(root, 'RESULTS.json')
res = json.load(open(path)) if os.path.exists(path) else {}
have = {f[:-3].upper() for f in os.listdir('/verif/vf/props') if f.startswith('c') and f.endswith('.py')}
def one(sid):
    prop = json.load(open(os.path.join(root, sid, 'meta.json')))['property']
    if prop not in have:
        return sid, None
    r = subprocess.run(['python3', '/verif/tools/run_seeded.py', sid, prop, tier], capture_output=True, text=True)
    try:
        out = json.loads(r.stdout)['results'][prop]
    except Exception:
        out = {'exit': 'error', 'lines': [r.stdout[-300:], r.stderr[-300:]]}
    return sid, {'check': prop, 'tier': tier, 'exit': out['exit'], 'detected': out['exit'] == 1, 'wall_s': out.get('wall_s'),
                 'first_lines': out.get('lines', [])[:2]}
with cf.ThreadPoolExecutor(int(os.environ.get('MATRIX_JOBS', '3'))) as ex:
    for sid, out in ex.map(one, ids):
        if out is None:
            continue
        res.setdefault(sid, {})[tier] = out
        print(sid, out['exit'], out['wall_s'], (out['first_lines'] or [''])[-1][:160], flush=True)
        json.dump(res, open(path, 'w'), indent=1, sort_keys=True)
