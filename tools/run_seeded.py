#!/usr/bin/env python3
"""Run checks against a seeded change without touching /repo: scratch worktree of /repo HEAD + patch,
check run with VERIF_SRC pointing at it, evidence/replays redirected to a temp dir, worktree removed.

usage: run_seeded.py <seeded id | path to patch> <check id>[,<check id>...] [quick|thorough] [seed]
"""
import json, os, shutil, subprocess, sys, tempfile, time
sid, checks = sys.argv[1], sys.argv[2].split(',')
tier = sys.argv[3] if len(sys.argv) > 3 else 'quick'
seed = sys.argv[4] if len(sys.argv) > 4 else '0'
patch = sid if os.path.isfile(sid) else '/verif/seeded/%s/patch.diff' % sid
name = os.path.basename(os.path.dirname(patch)) if os.path.isfile(sid) else sid
wt = '/tmp/mut_%s_%d' % (name, os.getpid())
tmp = tempfile.mkdtemp(prefix='mutev_')
def sh(c, **k): return subprocess.run(c, shell=True, capture_output=True, text=True, **k)
r = sh('git -C /repo worktree add --detach %s HEAD' % wt); assert r.returncode == 0, r.stderr
res = {}
try:
    r = sh('git -C %s apply --3way %s' % (wt, patch)); assert r.returncode == 0, r.stderr
    for c in checks:
        t0 = time.time()
        e = dict(os.environ, VERIF_SRC=wt + '/src', VERIF_EVIDENCE_DIR=tmp, VERIF_REPLAY_DIR=tmp, VERIF_SEED=seed)
        r = sh('/verif/check %s %s' % (c, tier), env=e)
        lines = [l for l in r.stdout.splitlines() if l.startswith(('VIOLATION', 'INCONCLUSIVE', 'KNOWN', '  clause'))]
        res[c] = {'exit': r.returncode, 'wall_s': round(time.time() - t0, 1), 'lines': lines[:6], 'summary': (r.stdout.strip().splitlines() or [''])[-1] if r.returncode != 1 else [l for l in r.stdout.splitlines() if ' evaluations' in l][-1:]}
finally:
    sh('git -C /repo worktree remove --force %s' % wt); shutil.rmtree(wt, ignore_errors=True); shutil.rmtree(tmp, ignore_errors=True)
print(json.dumps({'seeded': name, 'tier': tier, 'seed': seed, 'results': res}, indent=1))
