#!/usr/bin/env python3
"""Confirm a sub-agent's seeded change independently, then file it under /verif/seeded/<id>/.

usage: confirm_seed.py <prop> <variant> <dir with patch.diff demo.py notes.md>
Steps (all in a scratch worktree of /repo outside /repo and /verif, removed afterwards):
  1. patch applies on /repo HEAD;  2. package imports;  3. the 76 repo tests pass with the change;
  4. demo.py passes (exit 0) without the change and fails (exit != 0) with it.
"""
import json, os, shutil, subprocess, sys, time

prop, var, src = sys.argv[1], sys.argv[2], sys.argv[3]
sid = '%s%s' % (prop, var)
wt = '/tmp/cs_%s' % sid
out = '/verif/seeded/%s' % sid
env = dict(os.environ, MPLBACKEND='Agg', OMP_NUM_THREADS='1', PIP_NO_INDEX='1')


def sh(cmd, **kw):
    return subprocess.run(cmd, shell=True, capture_output=True, text=True, **kw)


meta = {'id': sid, 'property': prop, 'source': 'independent sub-agent (saw only the property text and a scratch worktree)'}
sh('git -C /repo worktree remove --force %s' % wt)
r = sh('git -C /repo worktree add --detach %s HEAD' % wt)
assert r.returncode == 0, r.stderr
try:
    meta['repo_head'] = sh('git -C /repo rev-parse --short HEAD').stdout.strip()
    r = sh('git -C %s apply --3way %s/patch.diff' % (wt, src))
    meta['applies'] = r.returncode == 0
    if r.returncode != 0:
        meta['apply_error'] = r.stderr[-400:]
    else:
        # canonical patch relative to the current HEAD
        diff = sh('git -C %s diff HEAD' % wt).stdout
        e2 = dict(env, PYTHONPATH=wt + '/src')
        r = sh('/venv/bin/python -c "import ampycloud; print(ampycloud.__file__)"', env=e2)
        meta['imports_from'] = r.stdout.strip()
        t0 = time.time()
        r = sh('cd %s && /venv/bin/python -m pytest -q -p no:cacheprovider --timeout=900 2>&1 | tail -3' % wt, env=e2)
        meta['tests_tail'] = r.stdout.strip().splitlines()[-1] if r.stdout.strip() else r.stderr[-200:]
        meta['tests_pass'] = ' passed' in meta['tests_tail'] and 'failed' not in meta['tests_tail']
        meta['tests_s'] = round(time.time() - t0, 1)
        r1 = sh('cd /tmp && timeout 900 /venv/bin/python %s/demo.py' % src, env=env)
        r2 = sh('cd /tmp && timeout 900 /venv/bin/python %s/demo.py' % src, env=e2)
        meta['demo_without_change'] = {'exit': r1.returncode, 'tail': (r1.stdout.strip().splitlines() or [''])[-1][:300]}
        meta['demo_with_change'] = {'exit': r2.returncode, 'tail': (r2.stdout.strip().splitlines() or [''])[-1][:300]}
        meta['confirmed'] = bool(meta['tests_pass'] and r1.returncode == 0 and r2.returncode != 0
                                 and wt in meta['imports_from'])
        if meta['confirmed']:
            os.makedirs(out, exist_ok=True)
            open(out + '/patch.diff', 'w').write(diff)
            shutil.copy(src + '/demo.py', out + '/demo.py')
            if os.path.exists(src + '/notes.md'):
                meta['needs_to_manifest'] = open(src + '/notes.md').read()[:3000]
            meta['what_i_ran'] = ['git apply on a scratch worktree of /repo HEAD', 'full repo test-suite with PYTHONPATH=<worktree>/src',
                                  'demo.py against /repo/src (exit 0) and against the changed worktree (exit != 0)']
            json.dump(meta, open(out + '/meta.json', 'w'), indent=1)
finally:
    sh('git -C /repo worktree remove --force %s' % wt)
    shutil.rmtree(wt, ignore_errors=True)
print(json.dumps({k: meta.get(k) for k in ('id', 'applies', 'tests_pass', 'tests_tail', 'demo_without_change', 'demo_with_change', 'confirmed')}))
