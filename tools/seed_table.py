#!/usr/bin/env python3
"""Markdown table of the seeded changes and what the checks reported (from seeded/RESULTS.json)."""
import json, os
root = '/verif/seeded'
res = json.load(open(root + '/RESULTS.json'))
mech = json.load(open(root + '/MECHANISMS.json'))
print('| id | change (mechanism) | check | quick | thorough | first witness (quick) |')
print('|---|---|---|---|---|---|')
for sid in sorted(res):
    r = res[sid]
    q, t = r.get('quick'), r.get('thorough')
    f = lambda x: '-' if x is None else ('caught' if x['detected'] else 'MISSED (exit %s)' % x['exit'])
    w = ((q or {}).get('first_lines') or [''])[-1].replace('|', '/').strip()[:90]
    print('| %s | %s | %s | %s | %s | %s |' % (sid, mech.get(sid, ''), (q or t)['check'], f(q), f(t), w))
