#!/bin/bash
# usage: tools/run_some.sh <tier> <seed> C19 C09 ...   - runs the listed checks, one line each
tier=$1; seed=$2; shift 2
cd "$(dirname "$0")/.."
for c in "$@"; do
  s=$(date +%s)
  out=$(VERIF_SEED=$seed ./check $c $tier 2>&1); rc=$?
  echo "$c rc=$rc $(( $(date +%s) - s ))s :: $(echo "$out" | grep -c '^VIOLATION') viol :: $(echo "$out" | grep -E 'evaluations|INCONCLUSIVE|KNOWN' | tr '\n' ' ' | cut -c1-300)"
done
