#!/bin/bash
# usage: tools/run_all.sh quick|thorough [seed]   - runs every check on /repo, prints one line each
tier=${1:-quick}; seed=${2:-0}
cd "$(dirname "$0")/.."
for i in 01 02 03 04 05 06 07 08 09 10 11 12 13 14 15 16 17 18 19 20; do
  s=$(date +%s)
  out=$(VERIF_SEED=$seed ./check C$i $tier 2>&1); rc=$?
  echo "C$i rc=$rc $(( $(date +%s) - s ))s :: $(echo "$out" | grep -c '^VIOLATION') viol :: $(echo "$out" | grep -E 'evaluations|INCONCLUSIVE|KNOWN' | tr '\n' ' ' | cut -c1-300)"
done
