#!/usr/bin/env python3
"""Apply catalogue mutants one by one to scratch worktrees and run the owning quick check.
usage: selftest/run.py [--tests] [ids or property ids ...]   -> selftest/RESULTS.json"""
import json, os, shutil, subprocess, sys, tempfile, concurrent.futures as cf
sys.path.insert(0, '/verif/selftest')
from mutants import M
args = sys.argv[1:]
with_tests = '--tests' in args
args = [a for a in args if a != '--tests']
sel = [m for m in M if not args or m[0] in args or m[1] in args]
path = '/verif/selftest/RESULTS.json'
res = json.load(open(path)) if os.path.exists(path) else {}
def sh(c, **k): return subprocess.run(c, shell=True, capture_output=True, text=True, **k)
def one(m):
    mid, prop, rel, old, new = m
    wt = '/tmp/st_%s_%d' % (mid, os.getpid())
    tmp = tempfile.mkdtemp(prefix='stev_')
    out = {'property': prop, 'file': rel}
    r = sh('git -C /repo worktree add --detach %s HEAD' % wt)
    try:
        f = os.path.join(wt, 'src/ampycloud', rel)
        s = open(f).read()
        if s.count(old) != 1:
            out['error'] = 'pattern occurs %d times' % s.count(old)
            return mid, out
        open(f, 'w').write(s.replace(old, new))
        e = dict(os.environ, VERIF_SRC=wt + '/src', VERIF_EVIDENCE_DIR=tmp, VERIF_REPLAY_DIR=tmp, PYTHONPATH=wt + '/src')
        r = sh('/venv/bin/python -c "import ampycloud, ampycloud.plots"', env=e)
        out['imports'] = r.returncode == 0
        if with_tests:
            r = sh('cd %s && MPLBACKEND=Agg /venv/bin/python -m pytest -q -x -p no:cacheprovider --timeout=900 2>&1 | tail -1' % wt, env=e)
            out['tests'] = r.stdout.strip()[-80:]
        e.pop('PYTHONPATH')
        r = sh('/verif/check %s quick' % prop, env=e)
        out['exit'] = r.returncode
        out['detected'] = r.returncode == 1
        lines = [l for l in r.stdout.splitlines() if l.startswith(('  clause', 'INCONCLUSIVE'))]
        out['first'] = lines[0][:220] if lines else ''
    finally:
        sh('git -C /repo worktree remove --force %s' % wt); shutil.rmtree(wt, ignore_errors=True); shutil.rmtree(tmp, ignore_errors=True)
    return mid, out
with cf.ThreadPoolExecutor(int(os.environ.get('MATRIX_JOBS', '3'))) as ex:
    for mid, out in ex.map(one, sel):
        res[mid] = out
        print(mid, out.get('property'), out.get('exit'), out.get('error', ''), out.get('tests', ''), out.get('first', '')[:150], flush=True)
        json.dump(res, open(path, 'w'), indent=1, sort_keys=True)
