"""Catalogue of one-line property-breaking changes (the "M" items of DESIGN.md section 2).

Each entry: (id, property, file relative to src/ampycloud, old text, new text).  The runner
(selftest/run.py) applies one entry to a scratch worktree of /repo HEAD, runs the quick check of the
owning property with VERIF_SRC pointing at it and expects exit 1 (VIOLATION)."""

M = [
 # --- C01 / C02 / C17: message assembly and significance
 ('m01_sig_ge', 'C17', 'icao.py', "if okta > sig_level and sig.count(True) < 3:", "if okta >= sig_level and sig.count(True) < 3:"),
 ('m01_sig_ge_c01', 'C01', 'icao.py', "if okta > sig_level and sig.count(True) < 3:", "if okta >= sig_level and sig.count(True) < 3:"),
 ('m01_msa_le', 'C01', 'data.py', "report = sligrolay['significant']*(sligrolay['height_base'] < msa_val)", "report = sligrolay['significant']*(sligrolay['height_base'] <= msa_val)"),
 ('m01_nosort', 'C01', 'data.py', "        pdf.sort_values('height_base', inplace=True)\n\n        # Reset the index, 'cause", "        # Reset the index, 'cause"),
 ('m01_lt4', 'C01', 'icao.py', "sig.count(True) < 3", "sig.count(True) < 4"),
 ('m01_sep', 'C01', 'data.py', "msg = ' '.join(msg.to_list())", "msg = '  '.join(msg.to_list())"),
 ('m01_width', 'C01', 'wmo.py', "return f'{int(out):03}'", "return f'{int(out):02}'"),
 ('m02_step3', 'C02', 'icao.py', "sig_level += 2", "sig_level += 3"),
 ('m02_slots2', 'C02', 'icao.py', "sig.count(True) < 3", "sig.count(True) < 2"),
 ('m02_swap', 'C02', 'data.py', "        if self._clouds_above_msa_buffer:\n            return 'NSC'\n        return 'NCD'", "        if self._clouds_above_msa_buffer:\n            return 'NCD'\n        return 'NSC'"),
 ('m02_nobuffer_branch', 'C02', 'data.py', "            if sligrolay_in_buffer.any():\n                return 'NSC'", "            if False:\n                return 'NSC'"),
 ('m02_flag_ge', 'C02', 'data.py', "if len(above_msa_t1_or_less) + len(above_msa_t2_or_more) > self._prms['MAX_HITS_OKTA0']:", "if len(above_msa_t1_or_less) + len(above_msa_t2_or_more) >= self._prms['MAX_HITS_OKTA0']:"),
 ('m17_step1', 'C17', 'icao.py', "sig_level += 2", "sig_level += 1"),
 ('m17_le3', 'C17', 'icao.py', "sig.count(True) < 3", "sig.count(True) <= 3"),
 ('m17_start1', 'C17', 'icao.py', "    sig_level = 0\n", "    sig_level = 1\n"),
 # --- C03
 ('m03_rows', 'C03', 'data.py', "pdf.iloc[ind, pdf.columns.get_loc('n_hits')] = np.sum(hits_per_ceilo)", "pdf.iloc[ind, pdf.columns.get_loc('n_hits')] = int(in_sligrolay.sum())"),
 ('m03_okta0_lt', 'C03', 'data.py', "if pdf.iloc[ind, pdf.columns.get_loc('n_hits')] <= self.prms['MAX_HITS_OKTA0']:", "if pdf.iloc[ind, pdf.columns.get_loc('n_hits')] < self.prms['MAX_HITS_OKTA0']:"),
 ('m03_okta8_lt', 'C03', 'data.py', ") <= self.prms['MAX_HOLES_OKTA8']:", ") < self.prms['MAX_HOLES_OKTA8']:"),
 ('m03_total_rows', 'C03', 'data.py', "        return int(np.sum(out))\n\n    def _calculate_base_height_for_selection", "        return int(len(self.data))\n\n    def _calculate_base_height_for_selection"),
 ('m03_floor', 'C03', 'wmo.py', "    out = np.round(out)\n", "    out = np.floor(out)\n"),
 # --- C04
 ('m04_oldest', 'C04', 'utils/utils.py', "n_latest_elements = vals[- int(len(vals) * lookback_perc / 100):]", "n_latest_elements = vals[:int(len(vals) * lookback_perc / 100)] if int(len(vals) * lookback_perc / 100) else vals"),
 ('m04_desc', 'C04', 'data.py', "self.data.sort_values('dt').loc[data_indexer]['height'].values,", "self.data.sort_values('dt', ascending=False).loc[data_indexer]['height'].values,"),
 ('m04_min', 'C04', 'utils/utils.py', "return np.percentile(n_latest_elements, height_perc)", "return np.min(n_latest_elements) if height_perc < 10 else np.percentile(n_latest_elements, height_perc)"),
 ('m04_round', 'C04', 'wmo.py', "        out = np.floor(val/100)\n", "        out = np.round(val/100)\n"),
 # ('m04_lt10000': `val <= 10000` -> `<` is an EQUIVALENT change: 10000 ft is coded 100 by both branches)
 ('m04_fallback_ge', 'C04', 'data.py', "if in_sligrolay_filtered.sum() > self.prms['MAX_HITS_OKTA0']:", "if in_sligrolay_filtered.sum() >= self.prms['MAX_HITS_OKTA0']:"),
 ('m04_std0', 'C04', 'data.py', "self.data.loc[in_sligrolay, 'height'].std(skipna=True)", "self.data.loc[in_sligrolay, 'height'].std(skipna=True, ddof=0)"),
 # --- C05
 ('m05_minrange0', 'C05', 'scaler.py', "        if max_val == min_val:\n", "        if False:\n"),      # D14 back
 ('m05_idbase', 'C05', 'data.py', "id_offset+10*ind+sub_layers_id", "id_offset+ind+sub_layers_id"),
 ('m05_fill_slice', 'C05', 'data.py', "self.data.loc[to_fill, 'layer_id'] = self.data.loc[to_fill, 'group_id']", "self.data.loc[to_fill, 'layer_id'] = self.data.loc[to_fill, 'slice_id']"),
 ('m08_119', 'C08', 'layer.py', "            abics[n_id] = np.inf  # The larger the abics score, the worst the fit.", "            pass"),
 ('m05_nslices', 'C05', 'data.py', "return len(np.unique(self.data['layer_id'][self.data['layer_id'] >= 0]))", "return len(np.unique(self.data['layer_id'][self.data['layer_id'] > 0]))"),
 # --- C06
 ('m06_once', 'C06', 'data.py', "            lt_min_sep_indexer = (base_height_diffs < min_seps_grp).fillna(False)\n\n    @log_func_call(logger)\n    def find_groups", "            lt_min_sep_indexer = (base_height_diffs < min_seps_grp).fillna(False)\n            break\n\n    @log_func_call(logger)\n    def find_groups"),
 ('m06_gt', 'C06', 'layer.py', "        if delta >= min_sep:\n            continue", "        if delta >= 0.9 * min_sep:\n            continue"),
 ('m06_lowerbin', 'C06', 'data.py', "        lt_min_sep_indexer = (base_height_diffs < min_seps_grp).fillna(False)\n        while", "        lt_min_sep_indexer = (base_height_diffs < min_seps_grp.shift(1)).fillna(False)\n        while"),
 ('m06_comp_perc', 'C06', 'layer.py', "            layer_base_params['height_perc']\n        ) for i in range(ncomp[best_model_ind])", "            50\n        ) for i in range(ncomp[best_model_ind])"),
 # --- C07
 ('m07_ge', 'C07', 'data.py', "above_msa_t1_or_less = data[(data.height > hit_height_lim) & (data.type <= 1)].index", "above_msa_t1_or_less = data[(data.height >= hit_height_lim) & (data.type <= 1)].index"),
 ('m07_nobuffer', 'C07', 'data.py', "hit_height_lim = self.msa + self.msa_hit_buffer", "hit_height_lim = self.msa"),
 ('m07_t2_nan', 'C07', 'data.py', "            data = data.drop(above_msa_t2_or_more)\n", "            data.loc[above_msa_t2_or_more, 'height'] = np.nan\n"),
 ('m07_flag_t1only', 'C07', 'data.py', "if len(above_msa_t1_or_less) + len(above_msa_t2_or_more) > self._prms['MAX_HITS_OKTA0']:", "if len(above_msa_t1_or_less) > self._prms['MAX_HITS_OKTA0']:"),
 # --- C08
 ('m08_noguard1', 'C08', 'data.py', "        if len(valids[valids]) == 1:\n            self.data.loc[valids, ['slice_id']] = 1\n        elif len(valids[valids]) > 1:", "        if len(valids[valids]) >= 1:"),
 # m08_no30: no longer crashes since D10 made the mixture fits robust; fitting small groups changes results but breaks no listed property -> NOT A VIOLATION of C08 on the current tree (its earlier 'detection' was the then-unfixed D13)
 ('m08_no30_NOTAVIOLATION', 'C08', 'data.py', "cond2 = len(gro_heights[~np.isnan(gro_heights)]) < 30", "cond2 = len(gro_heights[~np.isnan(gro_heights)]) < 2"),
 # m08_lowess1: statsmodels copes with a single point: no exception, fluffiness 0 as before -> NOT A VIOLATION of C08 on the current tree (its earlier 'detection' was the then-unfixed D13)
 ('m08_lowess1_NOTAVIOLATION', 'C08', 'fluffer.py', "    if len(pts) == 1:\n        return 0, pts\n", ""),
 # m08_allnan: nanmax of an all-NaN array only warns: no exception, the array stays all-NaN -> NOT A VIOLATION of C08 on the current tree (its earlier 'detection' was the then-unfixed D13)
 ('m08_allnan_NOTAVIOLATION', 'C08', 'scaler.py', "    if np.all(np.isnan(vals)):\n        return vals\n", ""),
 ('m08_bundle1', 'C08', 'data.py', "            if valids.sum() < 2:\n                continue\n", ""),
 # --- C09
 ('m09_norandomstate', 'C09', 'layer.py', "                                        random_state=random_seed).fit(vals)", "                                        random_state=None).fit(vals)"),
 ('m09_globalseed', 'C09', 'layer.py', "    # List all the number of components I should try\n", "    np.random.seed(random_seed)\n    # List all the number of components I should try\n"),
 ('m09_nofinally', 'C09', 'utils/utils.py', "    try:\n        yield\n    finally:\n        np.random.set_state(state)", "    yield\n    np.random.set_state(state)"),
 ('m09_demo_noseed', 'C09', 'utils/mocker.py', "    with utils.tmp_seed(42):\n        # Actually generate the mock data\n        out: DataFrame = mock_layers(n_ceilos, lookback_time, hit_gap, lyrs)", "    np.random.seed(42)\n    out: DataFrame = mock_layers(n_ceilos, lookback_time, hit_gap, lyrs)"),
 # --- C10
 ('m10_noreset', 'C10', 'data.py', "        data = data.reset_index(drop=True)\n", ""),
 ('m10_colorder', 'C10', 'data.py', "            tmp[['dt', 'height']][valids].to_numpy(), algo='agglomerative',\n                **{'linkage': 'average'", "            tmp.iloc[:, 1:3][valids].to_numpy(), algo='agglomerative',\n                **{'linkage': 'average'"),
 # --- C11
 ('m11_shallow', 'C11', 'data.py', "full_prms = copy.deepcopy(dynamic.AMPYCLOUD_PRMS)", "full_prms = copy.copy(dynamic.AMPYCLOUD_PRMS)"),
 ('m15_nodatacopy', 'C15', 'utils/utils.py', "    data = copy.deepcopy(pdf)\n", "    data = pdf\n"),
 ('m11_global_adjust', 'C11', 'data.py', "        full_prms = copy.deepcopy(dynamic.AMPYCLOUD_PRMS)\n\n        # Adjust the prms as warranted by the user\n        if prms is not None:\n            full_prms = utils.adjust_nested_dict(full_prms, prms)", "        full_prms = dynamic.AMPYCLOUD_PRMS\n\n        # Adjust the prms as warranted by the user\n        if prms is not None:\n            full_prms = utils.adjust_nested_dict(full_prms, prms)\n        full_prms = copy.deepcopy(full_prms)"),
 # --- C12
 ('m12_liveglobal', 'C12', 'data.py', "                **self.prms['LOWESS'])\n\n        return pdf", "                **dynamic.AMPYCLOUD_PRMS['LOWESS'])\n\n        return pdf"),
 ('m12_liveglobal_okta', 'C12', 'data.py', ") <= self.prms['MAX_HOLES_OKTA8']:", ") <= dynamic.AMPYCLOUD_PRMS['MAX_HOLES_OKTA8']:"),
 ('m12_unknown_insert', 'C12', 'utils/utils.py', "            warnings.warn(f'Key unknown (and thus ignored): {\".\".join(lvls)}', AmpycloudWarning)\n            continue", "            warnings.warn(f'Key unknown (and thus ignored): {\".\".join(lvls)}', AmpycloudWarning)"),
 ('m12_set_replace', 'C12', 'core.py', "    dynamic.AMPYCLOUD_PRMS = utils.adjust_nested_dict(dynamic.AMPYCLOUD_PRMS, user_prms)", "    dynamic.AMPYCLOUD_PRMS.update(user_prms)"),
 # --- C13
 ('m13_liveglobal', 'C13', 'data.py', "min_sep = self.prms['MIN_SEP_VALS'][min_sep_val_id]", "min_sep = dynamic.AMPYCLOUD_PRMS['MIN_SEP_VALS'][min(min_sep_val_id, len(dynamic.AMPYCLOUD_PRMS['MIN_SEP_VALS']) - 1)] if isinstance(dynamic.AMPYCLOUD_PRMS['MIN_SEP_VALS'], list) else self.prms['MIN_SEP_VALS'][min_sep_val_id]"),
 ('m13_tmpseed', 'C13', 'layer.py', "            models[n_val] = GaussianMixture(n_val, covariance_type='spherical',\n                                            random_state=random_seed).fit(vals)", "            with utils.tmp_seed(random_seed):\n                models[n_val] = GaussianMixture(n_val, covariance_type='spherical',\n                                                random_state=None).fit(vals)"),
 # --- C14
 ('m14_noguard_layers', 'C14', 'data.py', "        if self._groups is None:\n            raise AmpycloudError('Grouping not yet done.", "        if False:\n            raise AmpycloudError('Grouping not yet done."),
 # m14_noreset_layerid (layer_id column not reset on a repeated find_layers) is EQUIVALENT under every permitted sequence: the same ids are rewritten
 ('m14_noreset_layerid_EQUIV', 'C14', 'data.py', "        self.data.loc[:, 'layer_id'] = None\n", "        if 'layer_id' not in self.data.columns:\n            self.data.loc[:, 'layer_id'] = None\n"),
 ('m14_guard_moved', 'C14', 'data.py', "        if self._layers is not None:\n            raise AmpycloudError('Layering already done. If you look for groups now", "        if False:\n            raise AmpycloudError('Layering already done. If you look for groups now"),
 # --- C15
 ('m15_merge_dt', 'C15', 'utils/utils.py', "merged = dets.merge(nodets, how='inner', on=['dt', 'ceilo'])", "merged = dets.merge(nodets, how='inner', on=['dt'])"),
 ('m15_nolen', 'C15', 'utils/utils.py', "    if len(data) == 0:\n        raise AmpycloudError(\"len(data) is 0. I can't work with no data !\")", "    if False:\n        raise AmpycloudError(\"len(data) is 0. I can't work with no data !\")"),
 ('m15_keepextra', 'C15', 'utils/utils.py', "            data.drop(key, axis=1, inplace=True)", "            pass"),
 # --- C16
 ('m16_substring', 'C16', 'data.py', "lambda x: x not in self.prms['EXCLUDE_FOR_BASE_HEIGHT_CALC']", "lambda x: not any(x in item or item in x for item in self.prms['EXCLUDE_FOR_BASE_HEIGHT_CALC'])"),
 ('m16_sortname', 'C16', 'data.py', "self.data.sort_values('dt').loc[data_indexer]['height'].values,", "self.data.sort_values(['dt', 'ceilo']).loc[data_indexer]['height'].values,"),
 # --- C18
 ('m18_ceil', 'C18', 'wmo.py', "    out[out > 7] = np.floor(out[out > 7])", "    out[out > 7] = np.ceil(out[out > 7])"),
 ('m18_no100', 'C18', 'wmo.py', "    out[(val == 100)] = 8\n", "    out[(val >= 99.99)] = 8\n"),
 ('m18_9999', 'C18', 'wmo.py', "if val <= 10000:", "if val <= 9999:"),
 ('m18_type', 'C18', 'wmo.py', "    if not isinstance(val, int):\n        raise AmpycloudError(f'val should be of type int, not: {type(val)}')\n\n    if val == 0:", "    if val == 0:"),
 # --- C19
 ('m19_offset', 'C19', 'scaler.py', "            cont_corr = np.sum(cont_corr[:sid])", "            cont_corr = np.sum(cont_corr[:max(sid - 1, 0)]) if sid > 1 else np.sum(cont_corr[:sid])"),
 ('m19_nanmax', 'C19', 'scaler.py', "    if max_val is None:\n        max_val = np.nanmax(vals)", "    if max_val is None:\n        max_val = np.max(vals)"),
 # m19_minrange_asym keeps every clause of C19 as stated (output in [0,1], span == range/min_range, order, undo): not a violation
 ('m19_minrange_asym_NOTAVIOLATION', 'C19', 'scaler.py', "return (val_mid - min_range/2, val_mid + min_range/2)", "return (np.nanmin(vals), np.nanmin(vals) + min_range)"),
 ('m19_undo_edges', 'C19', 'scaler.py', "            out[cond] = (vals[cond] - cont_corr) * sval + offsets[sid]", "            out[cond] = (vals[cond] - cont_corr) * scales[0] + offsets[sid]"),
 # --- C20
 ('m20_styleuse', 'C20', 'plots/tools.py', "        with plt.style.context(prms):\n\n            out = func(*args, **kwargs)\n            return out", "        plt.style.use(prms)\n        out = func(*args, **kwargs)\n        return out"),
 ('m20_noclose', 'C20', 'plots/core.py', "    if not show:\n        adp.close_fig()", "    if not show and upto != 'slices':\n        adp.close_fig()"),
 ('m20_nomodulo', 'C20', 'plots/diagnostics.py', "marker=MRKS[ind % len(MRKS)],\n                                     s=40, c='none', edgecolor='k'", "marker=MRKS[ind],\n                                     s=40, c='none', edgecolor='k'"),
]
