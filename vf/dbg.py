"""Debug helper: python -m vf.dbg C01 quick [filter]  -> runs plan cases in-process, prints slow/crashed ones."""
import sys, time, json
from . import env
env.setup()
from . import runner
pid, tier = sys.argv[1], sys.argv[2]
lo, hi = (int(sys.argv[3]), int(sys.argv[4])) if len(sys.argv) > 4 else (0, 10**9)
mod = runner.load_prop(pid)
seed = int(__import__('os').environ.get('VERIF_SEED', 0))
for i, d in enumerate(mod.plan(tier, seed)):
    if not lo <= i < hi:
        continue
    t0 = time.process_time()
    r = mod.check(d)
    dt = time.process_time() - t0
    if dt > 3 or r.get('viol') or any(t.startswith('crashed') for t in r.get('tags', [])):
        print(i, round(dt, 2), json.dumps(d)[:200], [t for t in r.get('tags', []) if 'crash' in t], r.get('viol', [])[:2])
        sys.stdout.flush()
