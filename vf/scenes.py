"""Seeded scene (hit table) and parameter generators + JSON (de)serialisation of cases.

A *scene* is a JSON-able dict:
    {'rows': [[ceilo, dt, height, type], ...], 'names': [...], 'order': str, 'fam': str,
     'index': optional list of index labels}
A *parameter set* is {'call': nested dict passed as prms=..., 'glob': nested dict installed in the
global dictionary before the run (only used for scaling modes that cannot be expressed per call,
see DESIGN.md section 1)}.
"""
import math
import copy
import numpy as np
import pandas as pd

NAME_POOLS = [
    ['a', 'b', 'c', 'd', 'e', 'f', 'g', 'h'],
    ['9', '10', '11', '100', '2', '1', '20', '3'],
    ['PAY', 'PAYERNE', 'PAYERNE-2', 'AY', 'P', 'ERN', 'NE-2', 'Y'],       # substrings of each other
    [' ', '  ', '_', '-', '.', ',', ';', '0'],                             # empty-ish
    ['ceilometer_with_a_very_long_name_' + 'x' * 40 + str(i) for i in range(8)],
    ['Zürich', 'Genève', 'Sion✈', 'Bâle', 'Ünter', 'ß', 'é', 'è'],
    ['c%d' % i for i in range(8)],
    ['CL31', 'CL31 ', ' CL31', ' CL31 ', 'cl31', 'Cl31', 'CL31\t', 'CL31\n'],    # equal up to blanks / case
]

STR = pd.StringDtype()


def rng_for(seed, prop, idx, extra=0):
    return np.random.default_rng([int(seed) & 0xffffffff, int(prop), int(idx), int(extra)])


# ------------------------------------------------------------------------------------------------
# frames


def frame(scene):
    """Build the plainly indexed, correctly typed DataFrame of a scene."""
    rows = scene['rows']
    df = pd.DataFrame({
        'ceilo': pd.array([r[0] for r in rows], dtype=STR),
        'dt': np.array([r[1] for r in rows], dtype=float),
        'height': np.array([np.nan if r[2] is None else r[2] for r in rows], dtype=float),
        'type': np.array([r[3] for r in rows], dtype=int),
    })
    if scene.get('index') is not None:
        idx = scene['index']
        if scene.get('index_kind') == 'range' and len(idx) > 1:
            df.index = pd.RangeIndex(idx[0], idx[0] + (idx[1] - idx[0]) * len(idx), idx[1] - idx[0])   # a genuine RangeIndex
        else:
            df.index = pd.Index(idx)
    if scene.get('assemble') == 'checked_concat':
        # each instrument's table is vetted with the public check first, then the tables are concatenated
        # (pandas carries DataFrame.attrs and the per-table row labels through pd.concat)
        import warnings as _w
        from ampycloud.utils.utils import check_data_consistency
        parts = []
        with _w.catch_warnings():
            _w.simplefilter('ignore')
            for c in pd.unique(df['ceilo']):
                part = df[df['ceilo'] == c].reset_index(drop=True)
                parts.append(check_data_consistency(part))
        df = pd.concat(parts)
    if scene.get('extra') == 'objects':
        # superfluous columns (documented as warning-only) holding arbitrary objects
        n = len(df)
        df['aux'] = [[i, i + 1] for i in range(n)]
        df['info'] = [{'k': i} for i in range(n)]
        df['arr'] = [np.arange(3) for _ in range(n)]
        df['when'] = pd.Timestamp('2024-01-01')
    return df


def rows_of(df):
    """Inverse of frame(): JSON-able rows (NaN kept as float nan)."""
    return [[str(c), float(t), float(h), int(k)] for c, t, h, k in
            zip(df['ceilo'], df['dt'], df['height'], df['type'])]


def dedupe(rows):
    """Make the rows satisfy the documented input format: no duplicated rows, no (ceilo, dt) with
    both a type-0 and a non-0 row, nor both a VV and a non-VV row."""
    seen = set()
    per = {}
    out = []
    for r in rows:
        key = (r[0], r[1], None if (r[2] is None or r[2] != r[2]) else r[2], r[3])
        if key in seen:
            continue
        kind = 'z' if r[3] == 0 else ('v' if r[3] == -1 else 'h')
        have = per.get((r[0], r[1]))
        if have is not None and not (have == kind and kind in ('h', 'v')):
            continue        # a non-detection or a VV hit stays alone on its (ceilo, dt)
        seen.add(key)
        per[(r[0], r[1])] = kind
        out.append(r)
    return out


def order_rows(rng, rows, order):
    if order == 'asc':
        idx = sorted(range(len(rows)), key=lambda i: rows[i][1])
    elif order == 'desc':
        idx = sorted(range(len(rows)), key=lambda i: -rows[i][1])
    elif order == 'byceilo':
        idx = sorted(range(len(rows)), key=lambda i: (rows[i][0], rows[i][1]))
    elif order == 'shuf':
        idx = list(rng.permutation(len(rows)))
    else:
        idx = list(range(len(rows)))
    return [rows[i] for i in idx]


ORDERS = ['asc', 'desc', 'byceilo', 'shuf']

# ------------------------------------------------------------------------------------------------
# generic scene generator


def _snap(rng, h):
    """Put extra probability mass on coding boundaries and repeated values."""
    u = rng.uniform()
    if u < 0.15:
        return float(round(h, -1))
    if u < 0.20:
        return float(round(h, -2))
    if u < 0.22:
        return float(max(0.0, np.nextafter(round(h, -2), -np.inf)))     # never below 0 (no negative denormals)
    return float(h)


def time_grid(rng, nt, span, kind, offset=0.0):
    if kind == 'regular':
        t = -np.arange(nt)[::-1] * (span / max(nt, 1))
    elif kind == 'jitter':
        t = -np.arange(nt)[::-1] * (span / max(nt, 1)) + rng.uniform(-0.2, 0.2, nt) * span / max(nt, 1)
    else:
        t = -np.sort(rng.uniform(0, span, nt))[::-1]
    t = np.unique(np.round(t + offset, 4))
    return t


def gen_scene(rng, nce=None, max_layers=6, big=False, allow_vv=True, order=None, names=None,
              anomalies=False, maxrows=None):
    """A generic multi-ceilometer scene with 0..max_layers layers."""
    if nce is None:
        nce = int(rng.choice([1, 1, 2, 2, 3, 4, 6, 8]))
    if names is None:
        pool = NAME_POOLS[int(rng.integers(len(NAME_POOLS)))]
        names = [pool[i] for i in rng.permutation(len(pool))[:nce]]
    span = float(rng.choice([0.5, 60, 900, 900, 900, 1800, 86400]))
    nlay = int(rng.choice([0, 1, 1, 2, 2, 3, 3, 4, 5, 6][:max_layers + 4]))
    nlay = min(nlay, max_layers)
    top = float(rng.choice([3000, 12000, 12000, 40000, 99000]))
    base_hs = sorted(rng.uniform(0, top, nlay))
    lays = []
    for h in base_hs:
        lays.append(dict(
            h=float(h), std=float(rng.choice([0, 0, 5, 30, 100, 300])),
            cov=float(rng.choice([0.02, 0.1, 0.3, 0.5, 0.8, 1.0])),
            amp=float(rng.choice([0, 0, 200, 1000])), trend=float(rng.choice([0, 0, 500, -500])),
            bimodal=float(rng.choice([0, 0, 0, 300, 600]))))
    coincident = rng.uniform() < 0.4
    kind0 = str(rng.choice(['regular', 'jitter', 'random']))
    rows = []
    shared_grid = None
    for ci, c in enumerate(names):
        nt = int(rng.choice([1, 2, 5, 15, 40, 60, 150 if big else 60]))
        if coincident and shared_grid is not None and rng.uniform() < 0.8:
            dts = shared_grid
        else:
            dts = time_grid(rng, nt, span, kind0 if rng.uniform() < 0.7 else 'random',
                            offset=0.0 if coincident else -ci * 1e-3 * max(span, 1))
            if shared_grid is None:
                shared_grid = dts
        for t in dts:
            hs = []
            for L in lays:
                if rng.uniform() < L['cov']:
                    ph = t / max(span, 1e-9)
                    h = L['h'] + (rng.normal(0, L['std']) if L['std'] > 0 else 0.0) \
                        + L['amp'] * math.sin(ph * 6.28) + L['trend'] * ph
                    if L['bimodal'] and rng.uniform() < 0.5:
                        h += L['bimodal']
                    h = float(np.clip(h, 0, 99999))
                    hs.append(_snap(rng, h))
            hs = sorted(set(hs))
            if not hs:
                rows.append([c, float(t), float('nan'), 0])
            elif allow_vv and rng.uniform() < 0.03:
                rows.append([c, float(t), hs[0], -1])
            else:
                for k, h in enumerate(hs):
                    rows.append([c, float(t), h, k + 1])
    if not rows:
        rows = [[names[0], 0.0, float('nan'), 0]]
    if anomalies:
        rows = add_anomalies(rng, rows)
    if maxrows is not None and len(rows) > maxrows:
        keep = sorted(rng.permutation(len(rows))[:maxrows])
        rows = [rows[i] for i in keep]
    rows = dedupe(rows)
    if order is None:
        order = str(rng.choice(ORDERS))
    rows = order_rows(rng, rows, order)
    return {'rows': rows, 'names': list(names), 'order': order, 'fam': 'generic'}


def add_anomalies(rng, rows):
    """Anomalies that the input format documents as *warnings only*."""
    rows = [list(r) for r in rows]
    k = rng.uniform()
    if k < 0.15:      # type 0 with a height
        for r in rows:
            if r[3] == 0 and rng.uniform() < 0.3:
                r[2] = float(rng.uniform(0, 5000))
    elif k < 0.30:    # type 1 (or VV) with NaN
        for r in rows:
            if r[3] in (1, -1) and rng.uniform() < 0.2:
                r[2] = float('nan')
    elif k < 0.42:    # missing lower types
        multi = {}
        for r in rows:
            multi[(r[0], r[1])] = multi.get((r[0], r[1]), 0) + 1
        rows = [r for r in rows if not (r[3] == 1 and multi[(r[0], r[1])] > 1 and rng.uniform() < 0.3)]
    elif k < 0.55:    # types > 3
        s = int(rng.integers(1, 4))
        for r in rows:
            if r[3] > 0:
                r[3] += s
    if rng.uniform() < 0.25:     # hit numbering that does not follow the height order (accepted silently)
        per = {}
        for j, r in enumerate(rows):
            if r[3] > 0:
                per.setdefault((r[0], r[1]), []).append(j)
        for js in per.values():
            if len(js) > 1 and rng.uniform() < 0.5:
                ts = [rows[j][3] for j in js]
                for j, t in zip(js, [ts[q] for q in rng.permutation(len(ts))]):
                    rows[j][3] = t
    if rng.uniform() < 0.2:      # one measurement reporting the same hit type twice (accepted silently)
        extra = []
        for r in rows:
            if r[3] in (1, -1, 2) and r[2] == r[2] and rng.uniform() < 0.25:
                extra.append([r[0], r[1], float(r[2] + rng.choice([-60.0, 10.0, 35.0, 250.0])), r[3]])
        rows = rows + extra
    if rng.uniform() < 0.2:      # one measurement reporting the same height under several hit types
        extra = []
        per = {}
        for r in rows:
            if r[3] > 0:
                per[(r[0], r[1])] = max(per.get((r[0], r[1]), 0), r[3])
        for r in rows:
            if r[3] > 0 and r[2] == r[2] and rng.uniform() < 0.3 and per[(r[0], r[1])] == r[3]:
                extra.append([r[0], r[1], r[2], r[3] + 1])
                if rng.uniform() < 0.4:
                    extra.append([r[0], r[1], r[2], r[3] + 2])
        rows = rows + extra
    u = rng.uniform()
    if u < 0.1:
        for r in rows:
            r[1] = r[1] * 1e-3
    elif u < 0.2:
        for r in rows:
            r[1] = r[1] + 1e6
    elif u < 0.25:
        for r in rows:
            r[1] = -r[1]          # positive dts
    return rows


# ------------------------------------------------------------------------------------------------
# engineered scenes


def flat_layers_scene(rng, layers, nce=1, nt=40, step=15.0, names=None, jitter=0.0, order='asc',
                      double_hits=0):
    """Well separated flat layers with an exact hit count each.

    layers: list of dicts {'h': base, 'count': number of (ceilo, dt) measurements that see it,
    'std': spread}.  Total measurements = nce*nt.  Hits of one measurement are typed 1..k from the
    ground.  `double_hits`: number of measurements that see the first layer twice (two hits of the
    same layer in one measurement, exercising the duplicate correction).
    """
    if names is None:
        names = ['c%d' % i for i in range(nce)]
    meas = [(c, -float(t) * step - ci * 0.25) for ci, c in enumerate(names) for t in range(nt)]
    seen = {m: [] for m in meas}
    for li, L in enumerate(layers):
        cnt = min(int(L['count']), len(meas))
        sel = rng.permutation(len(meas))[:cnt]
        for j in sel:
            h = L['h'] + float(rng.normal(0, L['std'])) if L.get('std', 0) else L['h']     # keeps -0.0
            seen[meas[j]].append(float(h))
        if li == 0 and double_hits:
            for j in sel[:double_hits]:
                seen[meas[j]].append(float(L['h'] + 7.0 + 0.01 * j))
    rows = []
    for (c, t) in meas:
        hs = sorted(seen[(c, t)])
        if not hs:
            rows.append([c, t, float('nan'), 0])
        for k, h in enumerate(hs):
            rows.append([c, t, h, k + 1])
    rows = order_rows(rng, dedupe(rows), order)
    return {'rows': rows, 'names': list(names), 'order': order, 'fam': 'flat'}


def bimodal_group_scene(rng, sep=None, n=None, order=None, nce=1, third=False, converge=False,
                        coincident=False):
    """One thick group whose heights are bi- (tri-) modal: engages the mixture model."""
    n = int(n or rng.integers(45, 100))
    sep = float(sep or rng.choice([300, 400, 600, 800]))
    names = ['a', 'b', 'c'][:nce]
    rows = []
    for ci, c in enumerate(names):
        for t in range(n):
            dt = -t * 15.0 - (0.0 if coincident else ci * 0.5)
            hs = []
            if rng.uniform() < 0.85:
                hs.append(2000 + rng.normal(0, 40))
            if rng.uniform() < 0.75:
                if converge == 'diverge':
                    s = sep * (1.0 - 0.65 * t / n)          # separation grows towards the most recent hits
                else:
                    s = sep * (0.35 + 0.65 * t / n) if converge else sep
                hs.append(2000 + s + rng.normal(0, 30))
            if third and rng.uniform() < 0.7:
                hs.append(2000 + 2 * sep + rng.normal(0, 30))
            if rng.uniform() < 0.9:
                hs.append(9000 + rng.normal(0, 50))
            hs = sorted(float(h) for h in hs)
            if not hs:
                rows.append([c, dt, float('nan'), 0])
            for k, h in enumerate(hs):
                rows.append([c, dt, h, k + 1])
    if order is None:
        order = str(rng.choice(ORDERS))
    rows = order_rows(rng, dedupe(rows), order)
    return {'rows': rows, 'names': names, 'order': order, 'fam': 'bimodal'}


def tie_cut_scene(rng, order=None):
    """Several ceilometers reporting at the very same times; two thin decks about one minimum
    separation (100 ft) apart, one of them seen by two instruments.  A single outlying hit sits in
    the time step where the look-back window of its deck begins, and the window holds an odd number
    of hits, so the cut falls inside the pair of simultaneous hits: whether the outlier counts
    depends on the order given to simultaneous hits.  Decision-time and report-time computations of
    the base must agree on it, whatever the row order."""
    nt = int(rng.integers(40, 80))
    two_low = bool(rng.integers(0, 2))                 # which deck is seen by two ceilometers
    names = ['C0', 'C1', 'C2']
    gap = float(rng.uniform(78, 128))
    jit = int(rng.choice([5, 8, 10]))
    n2 = 2 * nt
    # look-back such that k = int(n2*L/100) is odd
    L = None
    for _ in range(50):
        cand = float(rng.choice([41, 50, 33.3, 21, 75, 11, 63]) + rng.integers(0, 3))
        if int(n2 * cand / 100) % 2 == 1:
            L = cand
            break
    if L is None:
        L = 41.0
    k = int(n2 * L / 100)
    t_cut = nt - (k + 1) // 2                          # time step split by the cut
    out_off = -float(jit + rng.choice([15, 20, 30]))
    rows = []
    for t in range(nt):
        dt = -900.0 + 15.0 * t
        for ci, c in enumerate(names):
            low = (ci < 2) if two_low else (ci < 1)
            h = (1000.0 if low else 1000.0 + gap) + float(rng.integers(-jit, jit + 1))
            in_pair = (ci < 2) if two_low else (ci >= 1)
            if t == t_cut and in_pair and c == (names[0] if two_low else names[1]):
                h += out_off
            rows.append([c, dt, h, 1])
    if order is None:
        order = str(rng.choice(ORDERS))
    rows = order_rows(rng, rows, order)
    return {'rows': rows, 'names': names, 'order': order, 'fam': 'tiecut', 'lookback': L}


def close_chain_scene(rng, nl=None, order=None, nce=None):
    """A chain of close flat layers (repeated merges of groups) seen by several ceilometers that
    disagree by a constant bias (so that excluding ceilometers moves the base heights)."""
    nl = int(nl or rng.integers(3, 7))
    nce = int(nce or rng.integers(1, 4))
    names = ['a', 'b', 'c'][:nce]
    hs0 = np.cumsum(rng.choice([150, 200, 260, 300, 400, 900], nl)) + float(rng.choice([500, 1000, 9300]))
    bias = {'a': 0.0, 'b': float(rng.choice([-150, -60, 60, 150])), 'c': float(rng.choice([0, 80]))}
    rows = []
    for ci, c in enumerate(names):
        for t in range(30):
            dt = -t * 30.0 - ci * 7.0
            h = sorted(float(hh + bias[c] + rng.normal(0, 15)) for hh in hs0 if rng.uniform() < 0.6)
            if not h:
                rows.append([c, dt, float('nan'), 0])
            for k, x in enumerate(h):
                rows.append([c, dt, x, k + 1])
    if order is None:
        order = str(rng.choice(ORDERS))
    rows = order_rows(rng, dedupe(rows), order)
    return {'rows': rows, 'names': names, 'order': order, 'fam': 'chain'}


def layered_mock_scene(rng, layers, nce=2, span=1200.0, step=15.0):
    """Sparse Gaussian layers [(height, std, coverage), ...] seen by nce ceilometers (up to 3 hits per measurement):
    the kind of scene the package's own mocker produces."""
    rows = []
    names = ['c%d' % i for i in range(nce)]
    for ci, c in enumerate(names):
        for t in np.arange(-span, 0.1, step):
            hs = sorted(float(rng.normal(h, sd)) for (h, sd, f) in layers if rng.uniform() < f)
            if not hs:
                rows.append([c, float(t) - ci * 0.3, float('nan'), 0])
            for k, h in enumerate(hs[:3]):
                rows.append([c, float(t) - ci * 0.3, h, k + 1])
    return {'rows': rows, 'names': names, 'order': 'none', 'fam': 'layered_mock'}


MERGE3TO2_LAYERS = [[(1000, 40, .3), (1220, 40, .3), (1800, 40, .3), (6000, 60, .5), (6700, 60, .5)],
                    [(1000, 40, .3), (1580, 40, .3), (1800, 40, .3), (6000, 60, .5), (6700, 60, .5)],
                    [(1000, 30, .35), (1200, 30, .35), (1900, 30, .35), (6000, 40, .5), (6800, 40, .5)]]


def time_sliced_scene(rng):
    """A handful of time steps far apart, to be sliced by time (small dt_scale, huge min_range): every slice holds
    the 1-3 rows of one time step - two distinct heights, the same height reported under several hit types, the
    same height seen by two instruments, a single hit - so that bundles of 'overlapping' slices of every small
    composition occur."""
    n = int(rng.integers(3, 8))
    h0 = float(rng.choice([300.0, 2000.0, 15000.0]))
    rows = []
    for t in range(n):
        dt = -300.0 * (n - 1 - t)
        h = h0 + float(rng.integers(-6, 7)) * 10.0
        kind = int(rng.integers(0, 6))
        if kind == 0:
            rows += [['A', dt, h, 1], ['A', dt, h + float(rng.choice([400.0, 1000.0])), 2]]
        elif kind == 1:
            rows += [['A', dt, h, 1], ['A', dt, h, 2]]
        elif kind == 2:
            rows += [['A', dt, h, 1], ['A', dt, h, 2], ['A', dt, h, 3]]
        elif kind == 3:
            rows += [['A', dt, h, 1], ['B', dt, h, 1]]
        elif kind == 4:
            rows += [['A', dt, h, 1]]
        else:
            rows += [['A', dt, h, 1], ['B', dt, h + 5.0, 1], ['A', dt, h + 700.0, 2]]
    if rng.uniform() < 0.3:
        rows.append(['B', -300.0 * n, h0 + 500.0, 1])
    return {'rows': dedupe(rows), 'names': ['A', 'B'], 'order': 'none', 'fam': 'timesliced'}


def many_split_scene(rng, nlay=None):
    """11-13 well separated thick layers, most of them bimodal (two sub-layers ~300 ft apart, >= 30
    hits): more than 10 groups, several of them split by the mixture model."""
    nlay = int(nlay or rng.integers(11, 14))
    rows = []
    nt = 45
    for t in range(nt):
        dt = -t * 20.0
        hs = []
        for L in range(nlay):
            base = 1000.0 + 2500.0 * L
            bim = (L % 10 == 0) or rng.uniform() < 0.3 if t == 0 else None
            if rng.uniform() < 0.9:
                hs.append(base + rng.normal(0, 15))
            if (L % 10 == 0 or L % 3 == 1) and rng.uniform() < 0.85:
                hs.append(base + 320.0 + rng.normal(0, 15))
        for k, h in enumerate(sorted(float(x) for x in hs)):
            rows.append(['a', dt, h, k + 1])
    return {'rows': dedupe(rows), 'names': ['a'], 'order': 'asc', 'fam': 'manysplit'}


PRMS_MANY_SPLIT = {'SLICING_PRMS': {'distance_threshold': 0.03}, 'MIN_SEP_VALS': [150.0, 150.0]}


def sep_probe_scene(rng, min_sep, eps, base=1000.0, order='asc'):
    """Two flat constant-height decks whose distance is min_sep - eps (eps may be 0, one ulp, tiny,
    negative): the reported group bases are exactly the two heights."""
    h2 = base + min_sep - (eps if not isinstance(eps, str) else 0.0)
    if eps == 'ulp':
        h2 = float(np.nextafter(base + min_sep, -np.inf))
    elif eps == '-ulp':
        h2 = float(np.nextafter(base + min_sep, np.inf))
    rows = []
    for t in range(40):
        dt = -t * 15.0
        rows.append(['a', dt, base, 1])
        rows.append(['a', dt, float(h2), 2])
    rows = order_rows(rng, rows, order)
    return {'rows': rows, 'names': ['a'], 'order': order, 'fam': 'sepprobe', 'h2': float(h2)}


def tri_plus_two_heights_scene(rng):
    """A low thick group that splits in three + a higher group (>= 30 hits) made of exactly two distinct
    heights (the number of mixture components is capped by the number of distinct heights)."""
    rows = []
    n = int(rng.integers(60, 90))
    h2 = float(rng.choice([6000.0, 9000.0]))
    for t in range(n):
        dt = -t * 10.0
        hs = []
        for j in range(3):
            if rng.uniform() < 0.8:
                hs.append(1000.0 + 400.0 * j + rng.normal(0, 25))
        hs.append(h2 + 60.0 * (t % 2))
        for k, h in enumerate(sorted(float(x) for x in hs)):
            rows.append(['a', dt, h, k + 1])
    return {'rows': dedupe(rows), 'names': ['a'], 'order': 'asc', 'fam': 'tri_plus_two'}


def many_slices_scene(rng):
    """> 100 slices with the lowest group split by the mixture model (needs PRMS_MANY_SLICES)."""
    rows = []
    n = 120
    for t in range(n):
        dt = -t * 7.0
        hs = []
        if rng.uniform() < 0.9:
            hs.append(float(500 + rng.normal(0, 40)))
        if rng.uniform() < 0.8:
            hs.append(float(1000 + rng.normal(0, 40)))
        for k, h in enumerate(sorted(hs)):
            rows.append(['a', dt, h, k + 1])
        if not hs:
            rows.append(['a', dt, float('nan'), 0])
    for j in range(110):
        rows.append(['b', -j * 7.0 - 3, 4000 + j * 700.0, 1])
    return {'rows': dedupe(rows), 'names': ['a', 'b'], 'order': 'none', 'fam': 'manyslices'}


PRMS_MANY_SLICES = {
    'SLICING_PRMS': {'distance_threshold': 0.2, 'dt_scale': 20.0,
                     'height_scale_kwargs': {'min_range': 1000}},
    'GROUPING_PRMS': {'height_pad_perc': 10, 'dt_scale': 180, 'height_scale_range': [100, 1000]}}


def degenerate_scene(rng, kind):
    names = ['a', 'b']
    if kind == 'single_row':
        rows = [['a', -1.0, float(rng.uniform(0, 20000)), 1]]
    elif kind == 'single_row_nan':
        rows = [['a', -1.0, float('nan'), 0]]
    elif kind == 'single_valid':
        rows = [['a', -float(t) * 15, float('nan'), 0] for t in range(int(rng.integers(2, 30)))]
        rows[int(rng.integers(len(rows)))] = ['a', rows[0][1] - 7.0, float(rng.uniform(0, 20000)), 1]
    elif kind == 'all_nan':
        rows = [[c, -float(t) * 15 - ci, float('nan'), 0] for ci, c in enumerate(names)
                for t in range(int(rng.integers(1, 40)))]
    elif kind == 'one_height':
        h = float(rng.choice([0.0, 1000.0, 9999.99, 10000.0, 54321.0]))
        rows = [[c, -float(t) * 15 - ci, h, 1] for ci, c in enumerate(names)
                for t in range(int(rng.integers(2, 60)))]
    elif kind == 'two_heights':
        h = float(rng.uniform(100, 9000))
        d = float(rng.choice([1.0, 50, 400, 3000]))
        rows = [['a', -float(t) * 15, h + d * float(rng.integers(0, 2)), 1]
                for t in range(int(rng.integers(31, 80)))]
    elif kind == 'vv_only':
        rows = [['a', -float(t) * 15, float(300 + rng.normal(0, 20)), -1] for t in range(40)]
    elif kind == 'zero_height':
        rows = [['a', -float(t) * 15, 0.0 if rng.uniform() < 0.7 else float(rng.uniform(0, 50)), 1]
                for t in range(40)]
    elif kind == 'top_height':
        rows = [['a', -float(t) * 15, float(99999.0 - rng.uniform(0, 500)), 1] for t in range(40)]
    else:
        raise ValueError(kind)
    return {'rows': dedupe(rows), 'names': names, 'order': 'none', 'fam': 'degenerate:' + kind}


DEGENERATE_KINDS = ['single_row', 'single_row_nan', 'single_valid', 'all_nan', 'one_height',
                    'two_heights', 'vv_only', 'zero_height', 'top_height']


# ------------------------------------------------------------------------------------------------
# parameters


def heights_of(scene):
    hs = [r[2] for r in scene['rows'] if r[2] is not None and r[2] == r[2]]
    return np.array(hs, dtype=float)


def gen_prms(rng, scene, msa=True, scaling=True, exclusion=True, rich=True, extreme=False):
    """An *effective* parameter set in which every leaf keeps its documented meaning."""
    p = {}
    glob = {}
    r = rng.uniform
    hs = heights_of(scene)
    hmax = float(hs.max()) if len(hs) else 1000.0
    hmed = float(np.median(hs)) if len(hs) else 5.0
    if msa and r() < 0.6:
        choice = [0.0, hmax * 0.5, hmax, hmax * 1.5, 10000.0, hmed,
                  float(hs[int(rng.integers(len(hs)))]) if len(hs) else 100.0]
        p['MSA'] = float(choice[int(rng.integers(len(choice)))])
        p['MSA_HIT_BUFFER'] = float(rng.choice([0, 0, 100, 1500, 3000]))
    if r() < 0.5:
        p['MAX_HITS_OKTA0'] = int(rng.choice([0, 1, 2, 3, 5, 10]))
    if r() < 0.5:
        p['MAX_HOLES_OKTA8'] = int(rng.choice([0, 1, 2, 5]))
    if r() < 0.5:
        p['BASE_LVL_HEIGHT_PERC'] = float(rng.choice([0, 5, 50, 100, round(r() * 100, 3)]))
    if r() < 0.5:
        p['BASE_LVL_LOOKBACK_PERC'] = float(rng.choice([100, 50, 10, 1, round(r() * 100 + 1e-3, 3)]))
    if exclusion and r() < 0.3:
        p['EXCLUDE_FOR_BASE_HEIGHT_CALC'] = [n for n in scene['names'] if r() < 0.5]
    if r() < 0.3:
        p['LOWESS'] = {'frac': float(rng.choice([0.05, 0.35, 0.7, 1.0])), 'it': int(rng.choice([0, 1, 3, 5]))}
    if r() < 0.4:
        k = int(rng.choice([0, 1, 2]))
        lims = sorted(float(x) for x in rng.uniform(0, 20000, k))
        p['MIN_SEP_LIMS'] = lims
        p['MIN_SEP_VALS'] = [float(rng.choice([50, 100, 250, 1000, 3000])) for _ in range(k + 1)]
    if rich and r() < 0.4:
        # the grouping step is quadratic in the number of slices (pandas row access): settings that
        # shatter the data into hundreds of slices are kept for small frames only
        small = len(hs) <= 150
        sp = {'distance_threshold': float(rng.choice([0.2, 0.05, 0.01, 0.5, 0.004] if small else [0.2, 0.1, 0.5])),
              'dt_scale': float(rng.choice([100000, 1000, 10] if small else [100000, 20000]))}
        m = str(rng.choice(['minmax-scale', 'minmax-scale', 'shift-and-scale', 'step-scale'])) \
            if scaling else 'minmax-scale'
        if m == 'minmax-scale':
            sp['height_scale_kwargs'] = {'min_range': float(rng.choice([0.1, 1000, 5000]))}
            p['SLICING_PRMS'] = sp
        else:
            sp['height_scale_mode'] = m
            if m == 'shift-and-scale':
                sp['height_scale_kwargs'] = {'scale': float(rng.choice([1000, 100, 5000]))}
            else:
                sp['height_scale_kwargs'] = {'steps': [3000.0, 8000.0], 'scales': [100.0, 500.0, 1000.0]}
            glob['SLICING_PRMS'] = sp          # must replace the whole sub-dict globally
    if rich and r() < 0.3:
        lo = float(rng.choice([10, 100]))
        p['GROUPING_PRMS'] = {'height_pad_perc': float(rng.choice([0, 10, 50, 500])),
                              'dt_scale': float(rng.choice([180, 10, 5000])),
                              'height_scale_range': [lo, float(rng.choice([500, 2000]))]}
    if rich and r() < 0.3:
        rs = [None, 100.0, 1.0][int(rng.integers(3))]
        p['LAYERING_PRMS'] = {
            'min_okta_to_split': int(rng.choice([0, 2, 5, 8])),
            'gmm_kwargs': {'scores': str(rng.choice(['BIC', 'AIC'])),
                           'mode': str(rng.choice(['delta', 'prob'])),
                           'min_prob': float(rng.choice([1.0, 0.5])),
                           'delta_mul_gain': float(rng.choice([0.95, 1.0, 0.5])),
                           'rescale_0_to_x': rs}}
    if extreme:
        # legal but unusual corners of the documented ranges
        if r() < 0.4:
            p['BASE_LVL_LOOKBACK_PERC'] = float(rng.choice([1e-3, 0.5, 99.999, 100.0]))
        if r() < 0.4:
            p['BASE_LVL_HEIGHT_PERC'] = float(rng.choice([0.0, 1e-9, 99.9999, 100.0]))
        if r() < 0.4:
            p['LOWESS'] = {'frac': float(rng.choice([1e-6, 0.01, 0.02, 0.999999, 1.0])), 'it': int(rng.choice([0, 10]))}
        if r() < 0.3:
            p['MAX_HITS_OKTA0'] = int(rng.choice([0, 50, 1000]))
        if r() < 0.3:
            p['MAX_HOLES_OKTA8'] = int(rng.choice([0, 50, 1000]))
        if r() < 0.3 and 'MSA' in p and p['MSA'] is not None:
            p['MSA_HIT_BUFFER'] = float(rng.choice([0.0, 1e-9, 1e5]))
        if r() < 0.3:
            p.setdefault('GROUPING_PRMS', {}).update({'height_scale_range': [float(x) for x in rng.choice([[100, 100], [1e-3, 1e-3], [1, 1e6], [500, 500]])],
                                                       'height_pad_perc': float(rng.choice([0, 1000])), 'dt_scale': float(rng.choice([1e-3, 180, 1e9]))})
        if r() < 0.3:
            p['MIN_SEP_LIMS'] = []
            p['MIN_SEP_VALS'] = [float(rng.choice([1e-6, 1.0, 1e5]))]
        if r() < 0.3:
            g = p.setdefault('LAYERING_PRMS', {}).setdefault('gmm_kwargs', {})
            g.update({'delta_mul_gain': float(rng.choice([1e-6, 0.999, 1.0, 10.0])), 'min_prob': float(rng.choice([0.0, 1e-9, 1.0])),
                      'rescale_0_to_x': [None, 1e-3, 1e6][int(rng.integers(3))]})
            p['LAYERING_PRMS']['min_okta_to_split'] = int(rng.choice([0, 8]))
    return {'call': p, 'glob': glob}


def msa_limit(prms):
    if prms.get('MSA') is None:
        return None
    return prms['MSA'] + prms['MSA_HIT_BUFFER']


def empties_chunk(scene, eff_prms):
    """True when the MSA crop would drop *every* row (known finding D8: chunk empty after crop)."""
    lim = msa_limit(eff_prms)
    if lim is None:
        return False
    for r in scene['rows']:
        h = r[2]
        if not (h is not None and h == h and h > lim and r[3] > 1):
            return False
    return True


def deep_merge(base, upd):
    out = copy.deepcopy(base)
    for k, v in upd.items():
        if isinstance(v, dict) and isinstance(out.get(k), dict):
            out[k] = deep_merge(out[k], v)
        else:
            out[k] = copy.deepcopy(v)
    return out


# ------------------------------------------------------------------------------------------------
# real-world reference scenes shipped with the repository's test-suite


def refdata_files():
    import os
    import glob
    from . import env
    root = os.path.join(os.path.dirname(os.path.realpath(env.SRC)), 'test', 'ampycloud', 'ref_data')
    return sorted(glob.glob(os.path.join(root, '*.csv')))


def refdata_scene(rng, idx, perturb=0):
    """One of the reference data sets, optionally perturbed: 1 = rows shuffled, 2 = random subsample,
    3 = heights jittered by a few ft, 4 = ceilometers renamed + one instrument removed."""
    import os
    files = refdata_files()
    f = files[idx % len(files)]
    df = pd.read_csv(f)
    rows = [[str(c), float(t), float(h), int(k)] for c, t, h, k in zip(df['ceilo'], df['dt'], df['height'], df['type'])]
    if perturb == 2:
        keep = sorted(rng.permutation(len(rows))[:max(5, int(len(rows) * rng.uniform(0.3, 0.9)))])
        rows = [rows[i] for i in keep]
    elif perturb == 3:
        for r in rows:
            if r[2] == r[2]:
                r[2] = float(max(0.0, r[2] + rng.normal(0, 3)))
    elif perturb == 4:
        names = sorted(set(r[0] for r in rows))
        drop = names[int(rng.integers(len(names)))] if len(names) > 1 else None
        rows = [[r[0][::-1] + '#', r[1], r[2], r[3]] for r in rows if r[0] != drop]
    rows = dedupe(rows)
    if perturb == 1:
        rows = order_rows(rng, rows, 'shuf')
    msa = None
    stem = os.path.basename(f)
    if 'MSA' in stem:
        msa = float(stem.split('MSA')[1].split('.')[0])
    return {'rows': rows, 'names': sorted(set(r[0] for r in rows)), 'order': 'shuf' if perturb == 1 else 'file',
            'fam': 'refdata', 'file': stem, 'msa': msa}


def quantised_heights(rng):
    """Heights of one thin layer reported with a coarse vertical resolution (few distinct values,
    many repeats): the regime in which a mixture component may stay unpopulated (issue #119)."""
    n = int(rng.integers(35, 120))
    k = int(rng.integers(5, 12))
    p = float(rng.uniform(0.3, 0.6))
    steps = rng.binomial(k, p, n).astype(float)
    base = float(rng.choice([300.0, 1000.0, 5000.0, 12000.0]))
    res = float(rng.choice([5.0, 10.0, 20.0]))
    return base + res * steps


def quantised_scene(rng, nce=1):
    """One thin overcast layer reported with a coarse resolution: the mixture fit is highly sensitive to
    its random initialisation there, so any dependence on shared random state shows in the result."""
    rows = []
    names = ['q%d' % i for i in range(nce)]
    for ci, c in enumerate(names):
        hs = quantised_heights(rng)
        for t, h in enumerate(hs):
            rows.append([c, -15.0 * t - 0.5 * ci, float(h), 1])
    return {'rows': dedupe(rows), 'names': names, 'order': 'desc', 'fam': 'quantised'}


def ulp_dt_scene(rng):
    """One layer seen by (nearly) every measurement; pairs of time stamps of one instrument differ by one ulp
    (e.g. -(0.1*3) and -0.3): distinct measurements that any rounding of dt would merge."""
    rows = []
    n = int(rng.integers(20, 60))
    for ci, c in enumerate(['a', 'b'][:int(rng.integers(1, 3))]):
        for t in range(n):
            dt = -0.1 * (3 * t + 1) - ci * 1e-3
            rows.append([c, dt, 900.0 + float(rng.integers(0, 40)), 1])
            rows.append([c, float(np.nextafter(dt, 0.0)), 905.0 + float(rng.integers(0, 40)), 1])
    k = int(rng.integers(0, 3))
    for j in range(k):
        rows[int(rng.integers(len(rows)))][2:] = [float('nan'), 0]
    return {'rows': dedupe(rows), 'names': sorted(set(r[0] for r in rows)), 'order': 'desc', 'fam': 'ulp_dt'}


def regroup_scene(rng):
    """Two overlapping clouds separated in time, each with a few stray hits in the height range of the other:
    slicing (by height) and grouping (in time) cut the hits differently, and a group inherits the id of a slice
    with the SAME number of hits but not the same hits."""
    n_low = int(rng.integers(25, 36))
    n_high = int(rng.integers(35, 46))
    k = int(rng.integers(1, 4))
    t_early = np.arange(-900.0, -600.0, 9.0)[:n_low + k]
    t_late = np.arange(-300.0, 0.0, 7.0)[:n_high + k]
    low = np.sort(rng.uniform(950, 1100, n_low))
    high = np.sort(rng.uniform(1150, 1400, n_high))
    early = np.concatenate([rng.permutation(low[:-3]), low[-3:], rng.uniform(1150, 1160, k)])
    late = np.concatenate([rng.uniform(1090, 1100, k), high[:3], rng.permutation(high[3:])])
    rows = [['A', float(t), float(h), 1] for t, h in zip(np.concatenate([t_early[:len(early)], t_late[:len(late)]]),
                                                         np.concatenate([early[:len(t_early)], late[:len(t_late)]]))]
    return {'rows': dedupe(rows), 'names': ['A'], 'order': 'asc', 'fam': 'regroup'}


def nsc_levels_scene(rng):
    """Two zero-okta slices (3 hits each) inside the MSA buffer zone that merge into a 1-okta group: the
    messages of the three levels differ (slices NCD, groups / layers NSC)."""
    rows = []
    n = 40
    lo = sorted(int(x) for x in rng.permutation(n)[:3])
    hi = sorted(int(x) for x in rng.permutation(n)[:3])
    for t in range(n):
        hs = []
        if t in lo:
            hs.append(5000.0 + float(rng.integers(0, 5)))
        if t in hi:
            hs.append(5150.0 + float(rng.integers(0, 5)))
        if not hs:
            rows.append(['a', -15.0 * t, float('nan'), 0])
        for k_, h in enumerate(sorted(hs)):
            rows.append(['a', -15.0 * t, h, k_ + 1])
    return {'rows': dedupe(rows), 'names': ['a'], 'order': 'desc', 'fam': 'nsc_levels'}


PRMS_NSC_LEVELS = {'MSA': 4000.0, 'MSA_HIT_BUFFER': 1500.0, 'MAX_HITS_OKTA0': 3, 'SLICING_PRMS': {'distance_threshold': 0.05},
                   'MIN_SEP_VALS': [250.0, 1000.0]}
