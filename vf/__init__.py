"""Runtime-monitoring machinery for the ampycloud properties C01-C20 (see /verif/DESIGN.md)."""
