"""Sharding over subprocesses, aggregation, evidence / replay writing, known-findings classifier.

A property module (vf/props/cXX.py) provides:
    ID, NUM (int), LEVEL ('exploration'), RULE (str), ASSUMPTIONS (list), REQUIRED (list of tags)
    plan(tier, seed) -> list of JSON-able case descriptors
    check(desc) -> dict(evals=int, nontrivial=[hashes], tags=[...], viol=[...], counters={...},
                        sample=<JSON-able or None>, case=<JSON-able materialised case or None>)
    optional: finalize(agg, tier, seed) -> list of extra violations (cross-case clauses)
              EXHAUSTIVE (dict tier -> str) when a finite sub-domain is enumerated completely
              SHARD_ENV(desc) -> dict of extra environment variables for the shard running `desc`
"""
import os
import sys
import json
import time
import hashlib
import importlib
import subprocess
import resource

from . import env

NWORKERS = int(os.environ.get('VERIF_WORKERS', '16'))
CPU_LIMIT_PER_CASE = 120.0          # CPU seconds (C08 "terminates"); never wall-clock


def load_prop(pid):
    return importlib.import_module('vf.props.' + pid.lower())


def known_findings():
    p = os.path.join(env.VERIF_DIR, 'known_findings.json')
    with open(p) as fh:
        return json.load(fh)


def classify(pid, v):
    """Return the id of the *open* known finding whose mechanism predicate matches witness v."""
    from . import findings
    for f in known_findings().get('open', []):
        if f['property'] != pid:
            continue
        pred = getattr(findings, f['predicate'], None)
        if pred is not None and pred(v):
            return f
    return None


# ------------------------------------------------------------------------------------------------
# worker side


def worker_main(pid, descs_path, out_path):
    env.setup()
    mod = load_prop(pid)
    with open(descs_path) as fh:
        descs = json.load(fh)
    with open(out_path, 'w') as out:
        for i, desc in descs:
            t0 = resource.getrusage(resource.RUSAGE_SELF)
            t0 = t0.ru_utime + t0.ru_stime
            try:
                res = mod.check(desc)
                res.setdefault('viol', [])
            except BaseException as e:       # harness failure: never a verdict on the code
                import traceback
                res = {'evals': 0, 'nontrivial': [], 'tags': [], 'viol': [], 'counters': {},
                       'harness_error': ''.join(traceback.format_exception(e))[-1500:]}
                if isinstance(e, KeyboardInterrupt):
                    raise
            t1 = resource.getrusage(resource.RUSAGE_SELF)
            res['cpu_s'] = t1.ru_utime + t1.ru_stime - t0
            if not res.get('viol'):
                res.pop('case', None)        # the materialised case is only needed in a replay file
            res['i'] = i
            res['desc'] = desc
            import locale as _locale
            if 'utf' not in _locale.getpreferredencoding(False).lower():
                res['tags'] = list(res.get('tags') or []) + ['legacy_locale_mode']
            if sys.flags.optimize:
                res['tags'] = list(res.get('tags') or []) + ['interpreter_optimize_mode']
                res.setdefault('counters', {})['cases_run_under_python_O'] = 1
            out.write(json.dumps(res, default=_default) + '\n')
            out.flush()


def _nonan(x):
    """Strict JSON for the evidence files: NaN / inf become strings."""
    if isinstance(x, float) and (x != x or x in (float('inf'), float('-inf'))):
        return repr(x)
    if isinstance(x, dict):
        return {k: _nonan(v) for k, v in x.items()}
    if isinstance(x, (list, tuple)):
        return [_nonan(v) for v in x]
    return x


def _default(o):
    import numpy as np
    if isinstance(o, np.generic):
        return o.item()
    if isinstance(o, np.ndarray):
        return o.tolist()
    if isinstance(o, (set, tuple)):
        return list(o)
    return repr(o)


# ------------------------------------------------------------------------------------------------
# runner side


def run_property(pid, tier, seed, replay=None):
    t_start = time.time()
    env.ensure_deps()
    mod = load_prop(pid)
    work = os.path.join(env.VERIF_DIR, '.work', '%s_%s_%d_%d' % (pid, tier, seed, os.getpid()))
    os.makedirs(work, exist_ok=True)
    if replay is not None:
        with open(replay) as fh:
            rp = json.load(fh)
        descs = [(0, rp['desc'])]
        tier = rp.get('tier', tier)
    else:
        descs = list(enumerate(mod.plan(tier, seed)))
    n_shards = max(1, min(NWORKERS, len(descs)))
    weights = getattr(mod, 'weight', None)
    shards = [[] for _ in range(n_shards)]
    # every fourth worker runs under python -O (see below); a descriptor may ask for it ('pyopt': True) or exclude it
    opt_shards = [j for j in range(n_shards) if j % 4 == 3] if replay is None and os.environ.get('VERIF_NO_OPTIMIZE_SHARDS') != '1' else []
    if replay is not None and rp.get('python_optimize'):
        opt_shards = [0]              # the witness was observed in a worker running under python -O

    # workers 1, 5, 9, 13 of a module that asks for it run under a legacy (non-UTF-8) locale
    loc_shards = [j for j in range(n_shards) if j % 4 == 1] if getattr(mod, 'LEGACY_LOCALE_SHARDS', False) and replay is None else []
    if replay is not None and rp.get('legacy_locale'):
        loc_shards = [0]

    def allowed(d):
        if isinstance(d, dict) and d.get('legacy_locale') and loc_shards:
            return loc_shards
        want = d.get('pyopt') if isinstance(d, dict) else None
        if want is True and opt_shards:
            return opt_shards
        if want is False and len(opt_shards) < n_shards:
            return [j for j in range(n_shards) if j not in opt_shards]
        return list(range(n_shards))
    if weights is not None:
        # greedy balancing for plans whose cases differ a lot in cost
        load = [0.0] * n_shards
        for item in sorted(descs, key=lambda d: -weights(d[1])):
            j = min(allowed(item[1]), key=lambda q: load[q])
            shards[j].append(item)
            load[j] += weights(item[1])
    else:
        for k, item in enumerate(descs):
            al = allowed(item[1])
            shards[al[k % len(al)]].append(item)
    shard_env = getattr(mod, 'SHARD_ENV', None)
    procs = []
    timeout = float(os.environ.get('VERIF_SHARD_TIMEOUT', getattr(mod, 'TIMEOUT', {}).get(tier, 3000)))
    for j, sh in enumerate(shards):
        dpath = os.path.join(work, 'descs_%d.json' % j)
        opath = os.path.join(work, 'out_%d.jsonl' % j)
        with open(dpath, 'w') as fh:
            json.dump(sh, fh)
        extra = dict(shard_env(j, sh) or {}) if shard_env else {}
        if j in loc_shards:
            extra.update({'LC_ALL': 'C', 'LANG': 'C', 'PYTHONUTF8': '0', 'PYTHONCOERCECLOCALE': '0'})
        if j in opt_shards:
            # every fourth worker runs the interpreter in optimised mode (python -O: asserts and `if __debug__`
            # blocks of ampycloud are stripped); the monitors are the same (contracts are enabled explicitly)
            extra['PYTHONOPTIMIZE'] = '1'
        p = subprocess.Popen([sys.executable, '-m', 'vf.main', '--worker', pid, dpath, opath],
                             env=env.child_env(extra), cwd=env.VERIF_DIR,
                             stdout=subprocess.DEVNULL, stderr=open(os.path.join(work, 'err_%d.txt' % j), 'w'))
        procs.append((p, sh, opath, j))
    results = {}
    inconclusive = []
    deadline = time.time() + timeout
    for p, sh, opath, j in procs:
        try:
            rc = p.wait(timeout=max(1.0, deadline - time.time()))
        except subprocess.TimeoutExpired:
            p.kill()
            p.wait()
            rc = 'timeout'
        if os.path.exists(opath):
            with open(opath) as fh:
                for line in fh:
                    try:
                        r = json.loads(line)
                    except ValueError:
                        continue
                    results[r['i']] = r
        missing = [i for i, _ in sh if i not in results]
        if rc != 0 or missing:
            err = ''
            try:
                with open(os.path.join(work, 'err_%d.txt' % j)) as fh:
                    err = fh.read()[-600:]
            except OSError:
                pass
            inconclusive.append('shard %d ended with %r, %d cases without a result; %s'
                                % (j, rc, len(missing), err.strip().replace('\n', ' | ')[-300:]))
    # ---- aggregate
    agg = {'evals': 0, 'nontrivial': set(), 'nontrivial_n': 0, 'tags': {}, 'counters': {}, 'viol': [], 'samples': [],
           'results': results, 'cpu_max': 0.0, 'harness_errors': []}
    for i in sorted(results):
        r = results[i]
        agg['evals'] += int(r.get('evals', 0))
        agg['nontrivial'].update(r.get('nontrivial', []))
        agg['nontrivial_n'] += int(r.get('nontrivial_n', 0))   # distinct by construction (enumerations)
        for t in r.get('tags', []):
            agg['tags'][t] = agg['tags'].get(t, 0) + 1
        for k, v in (r.get('counters') or {}).items():
            if isinstance(v, (int, float)):
                agg['counters'][k] = agg['counters'].get(k, 0) + v
        agg['cpu_max'] = max(agg['cpu_max'], r.get('cpu_s', 0.0))
        if r.get('harness_error'):
            agg['harness_errors'].append((i, r['harness_error']))
        for v in r.get('viol', []):
            v = dict(v)
            v['_i'] = i
            agg['viol'].append(v)
        if r.get('sample') is not None and len(agg['samples']) < 4:
            agg['samples'].append(r['sample'])
    if hasattr(mod, 'finalize'):
        for v in mod.finalize(agg, tier, seed) or []:
            agg['viol'].append(v)
    for i, he in agg['harness_errors'][:3]:
        inconclusive.append('harness error in case %d: %s' % (i, he.strip().replace('\n', ' | ')[-400:]))
    required = list(getattr(mod, 'REQUIRED', []))
    if replay is None:
        for t in required:
            if agg['tags'].get(t, 0) == 0:
                inconclusive.append('required coverage class never observed: ' + t)
        if agg['evals'] == 0:
            inconclusive.append('the deciding monitor was never reached (0 evaluations)')
    # ---- verdicts
    rdir = os.environ.get('VERIF_REPLAY_DIR') or os.path.join(env.VERIF_DIR, 'replays')
    os.makedirs(rdir, exist_ok=True)
    tree = env.tree_identity()
    n_viol = 0
    known_lines = {}
    printed = set()
    for v in agg['viol']:
        pid_v = v.get('prop', pid)
        if pid_v != pid:
            continue            # witness of another property: counted by that property's check
        f = classify(pid, v)
        if f is not None:
            known_lines.setdefault(f['id'], [f, 0])[1] += 1
            continue
        n_viol += 1
        key = (v.get('clause'), v.get('_i'))
        if key in printed or len(printed) >= 20:
            continue
        printed.add(key)
        r = results.get(v.get('_i'), {})
        rp = {'property': pid, 'tier': tier, 'seed': seed, 'desc': r.get('desc', v.get('desc')),
              'case': r.get('case'), 'witness': {k: x for k, x in v.items() if not k.startswith('_')},
              'tree': tree, 'python_optimize': 'interpreter_optimize_mode' in (r.get('tags') or []),
              'legacy_locale': 'legacy_locale_mode' in (r.get('tags') or [])}
        h = hashlib.sha256(json.dumps(rp, sort_keys=True, default=_default).encode()).hexdigest()[:12]
        path = os.path.join(rdir, '%s_%s.json' % (pid, h))
        with open(path, 'w') as fh:
            json.dump(rp, fh, indent=1, default=_default)
        print('VIOLATION property=%s replay=%s' % (pid, path))
        print('  clause: %s | %s' % (v.get('clause'), json.dumps(
            {k: x for k, x in v.items() if k not in ('prop', 'clause') and not k.startswith('_')},
            default=_default)[:600]))
    for fid, (f, n) in sorted(known_lines.items()):
        print('KNOWN-FINDING: property=%s %s [%s, %d witnesses in this run]' % (pid, f['what'], fid, n))
    # ---- evidence
    wall = time.time() - t_start
    if replay is None:
        cov = {
            'evaluations': int(agg['evals']),
            'distinct_nontrivial': len(agg['nontrivial']) + agg['nontrivial_n'],
            'rule': mod.RULE,
            'samples': agg['samples'] or [{'note': 'no sample recorded'}],
            'classes_observed': dict(sorted(agg['tags'].items())),
            'classes_required': required,
            'monitor_counters': dict(sorted(agg['counters'].items())),
            'cases_planned': len(descs), 'cases_completed': len(results),
            'max_cpu_s_per_case': round(agg['cpu_max'], 3),
            'known_finding_witnesses': {k: n for k, (f, n) in known_lines.items()},
            'inconclusive_reasons': inconclusive,
            'tree': tree,
            'verdict': 'violated' if n_viol else ('inconclusive' if inconclusive else 'held'),
        }
        ex = getattr(mod, 'EXHAUSTIVE', {}).get(tier)
        if ex:
            cov['exhaustive'] = True
            cov['exhaustive_bound'] = ex
        ev = {'property_id': pid, 'tier': tier, 'seed': int(seed), 'level': getattr(mod, 'LEVEL', 'exploration'),
              'coverage': cov, 'assumptions': list(getattr(mod, 'ASSUMPTIONS', [])),
              'wall_s': round(wall, 2), 'violations': int(n_viol)}
        edir = os.environ.get('VERIF_EVIDENCE_DIR') or os.path.join(env.VERIF_DIR, 'evidence')
        os.makedirs(edir, exist_ok=True)
        with open(os.path.join(edir, pid + '.json'), 'w') as fh:
            json.dump(_nonan(json.loads(json.dumps(ev, default=_default))), fh, indent=1, allow_nan=False)
    # ---- clean the scratch directory
    import shutil
    shutil.rmtree(work, ignore_errors=True)
    try:
        os.rmdir(os.path.join(env.VERIF_DIR, '.work'))
    except OSError:
        pass
    print('%s %s seed=%d: %d evaluations, %d distinct non-trivial, %d violations, %d known-finding '
          'witnesses, %.1fs' % (pid, tier, seed, agg['evals'], len(agg['nontrivial']) + agg['nontrivial_n'], n_viol,
                                sum(n for _, n in known_lines.values()), wall))
    if n_viol:
        return 1
    if inconclusive:
        for r in inconclusive[:10]:
            print('INCONCLUSIVE property=%s reason=%s' % (pid, r))
        return 2
    return 0
