"""Shared pipeline workload: case families -> materialised (scene, parameters) -> monitored run."""
import copy
import time
import traceback
import warnings
import numpy as np

from . import scenes, obs, instrument

# ------------------------------------------------------------------------------------------------
# materialisation of descriptors


def materialise(desc):
    """desc: {'fam', 's' (seed), 'p' (property number), 'i' (index), ...knobs} -> case dict."""
    fam = desc['fam']
    rng = scenes.rng_for(desc['s'], desc['p'], desc['i'], desc.get('x', 0))
    k = desc.get('k', {})
    if fam == 'generic':
        sc = scenes.gen_scene(rng, big=k.get('big', False), anomalies=k.get('anom', False),
                              order=k.get('order'), nce=k.get('nce'), maxrows=k.get('maxrows'))
        prm = scenes.gen_prms(rng, sc, msa=k.get('msa', True), scaling=k.get('scaling', True),
                              exclusion=k.get('exclusion', True), rich=k.get('rich', True),
                              extreme=k.get('extreme', False))
    elif fam == 'flat':
        sc, prm = flat_okta_case(rng, k)
    elif fam == 'bimodal':
        near = None
        if k.get('near'):
            near = float(rng.choice([100, 150, 250, 400]))
        sc = scenes.bimodal_group_scene(rng, order=k.get('order'), nce=k.get('nce', 1),
                                        third=k.get('third', False), converge=k.get('converge', False),
                                        coincident=k.get('coincident', False),
                                        sep=None if near is None else near * float(rng.uniform(0.95, 1.6)))
        prm = {'call': base_prms(rng, sc, k), 'glob': {}}
        if near is not None:        # component separation close to the (single-bin) minimum separation
            prm['call']['MIN_SEP_LIMS'] = []
            prm['call']['MIN_SEP_VALS'] = [near]
    elif fam == 'tiecut':
        sc = scenes.tie_cut_scene(rng, order=k.get('order'))
        prm = {'call': {'BASE_LVL_LOOKBACK_PERC': sc.pop('lookback'),
                        'BASE_LVL_HEIGHT_PERC': float(rng.choice([0, 0, 1, 100])),
                        'MIN_SEP_VALS': [100.0], 'MIN_SEP_LIMS': []}, 'glob': {}}
    elif fam == 'chain':
        sc = scenes.close_chain_scene(rng, order=k.get('order'), nce=k.get('nce'))
        prm = {'call': base_prms(rng, sc, k), 'glob': {}}
    elif fam == 'tri_plus_two':
        sc = scenes.tri_plus_two_heights_scene(rng)
        prm = {'call': {'MIN_SEP_VALS': [40.0, 40.0], 'LAYERING_PRMS': {'min_okta_to_split': 0}}, 'glob': {}}
    elif fam == 'quantised':
        sc = scenes.quantised_scene(rng, nce=k.get('nce', 1))
        prm = {'call': base_prms(rng, sc, dict(k, bins=0)), 'glob': {}}
    elif fam == 'ulp_dt':
        sc = scenes.ulp_dt_scene(rng)
        prm = {'call': {'MAX_HOLES_OKTA8': int(rng.choice([0, 1, 2])), 'MAX_HITS_OKTA0': int(rng.choice([0, 3]))}, 'glob': {}}
    elif fam == 'regroup':
        sc = scenes.regroup_scene(rng)
        prm = {'call': {'MIN_SEP_VALS': [100.0, 1000.0], 'GROUPING_PRMS': {'height_pad_perc': 50.0}}, 'glob': {}}
    elif fam == 'nsc_levels':
        sc = scenes.nsc_levels_scene(rng)
        prm = {'call': copy.deepcopy(scenes.PRMS_NSC_LEVELS), 'glob': {}}
    elif fam == 'manysplit':
        sc = scenes.many_split_scene(rng)
        prm = {'call': copy.deepcopy(scenes.PRMS_MANY_SPLIT), 'glob': {}}
    elif fam == 'sepprobe':
        ms = float(k['min_sep'])
        sc = scenes.sep_probe_scene(rng, ms, k['eps'], base=float(k.get('base', 1000.0)), order=k.get('order', 'asc'))
        prm = {'call': {'MIN_SEP_VALS': [ms], 'MIN_SEP_LIMS': [],
                        'SLICING_PRMS': {'distance_threshold': 0.1, 'height_scale_kwargs': {'min_range': ms}},
                        'BASE_LVL_HEIGHT_PERC': float(k.get('perc', 5)), 'LAYERING_PRMS': {'min_okta_to_split': 9}},
               'glob': {}}
    elif fam == 'manyslices':
        sc = scenes.many_slices_scene(rng)
        prm = {'call': copy.deepcopy(scenes.PRMS_MANY_SLICES), 'glob': {}}
    elif fam == 'refdata':
        sc = scenes.refdata_scene(rng, k['file'], k.get('perturb', 0))
        if k.get('default_prms'):
            prm = {'call': {}, 'glob': {}}
        else:
            prm = scenes.gen_prms(rng, sc, scaling=k.get('scaling', False), rich=k.get('rich', False))
        if sc.get('msa') is not None and 'MSA' not in prm['call']:
            prm['call']['MSA'] = sc['msa']
    elif fam == 'degenerate':
        sc = scenes.degenerate_scene(rng, k['kind'])
        prm = scenes.gen_prms(rng, sc, rich=k.get('rich', False))
        if k.get('prm_only_over'):
            prm = {'call': {}, 'glob': {}}
    else:
        raise ValueError('unknown family ' + fam)
    if k.get('index') == 'concat':
        # index labels as produced by pd.concat of per-ceilometer frames (non-unique labels)
        cnt = {}
        idx = []
        for r in sc['rows']:
            idx.append(cnt.get(r[0], 0))
            cnt[r[0]] = idx[-1] + 1
        sc['index'] = idx
    if k.get('index') == 'sorted_repeats':
        # non-unique labels in non-decreasing order (e.g. pd.concat(...).sort_index())
        n_ = len(sc['rows'])
        sc['index'] = sorted(int(x) for x in rng.integers(0, max(2, n_ // 2), n_))
    if k.get('index') == 'checked_concat':
        sc['rows'] = sorted(sc['rows'], key=lambda r: r[0])        # rows grouped by instrument: what the concat yields
        sc['assemble'] = 'checked_concat'
    if k.get('index') == 'range_offset':
        sc['index'] = list(range(133, 133 + len(sc['rows'])))          # e.g. df.iloc[133:] / df.tail(n): RangeIndex, start != 0
        sc['index_kind'] = 'range'
    elif k.get('index') == 'range_desc':
        sc['index'] = list(range(len(sc['rows']) - 1, -1, -1))
        sc['index_kind'] = 'range'
    if k.get('extra'):
        sc['extra'] = k['extra']
    if 'prm_over' in k:
        prm['call'] = scenes.deep_merge(prm['call'], k['prm_over'])
    uk = k.get('unknown_keys', 'auto')
    if uk == 'auto':
        uk = ['first', 'nested', 'last'][(desc.get('i', 0) // 11) % 3] if desc.get('i', 0) % 11 == 3 else None
    if uk and prm['call']:
        prm['call'] = with_unknown_keys(prm['call'], uk)
    eff = obs.effective(prm)
    if not desc.get('allow_empty') and scenes.empties_chunk(sc, eff):
        # known finding D8 (chunk emptied by the crop) is decided by C08 only: nudge the MSA
        prm['call']['MSA'] = None
    return {'scene': sc, 'prm': prm}


def with_unknown_keys(call, where):
    """Unknown / obsolete entries (documented: ignored with a warning) placed before or after the known ones."""
    out = {}
    if where in ('first', 'nested'):
        out['OBSOLETE_PRM'] = 1
        out['OLD_SECTION'] = {'x': [1, 2]}
    for key, val in call.items():
        if isinstance(val, dict) and where == 'nested':
            val = dict({'obsolete_kw': 0}, **{kk: (dict({'old': None}, **vv) if isinstance(vv, dict) else vv) for kk, vv in val.items()})
        out[key] = val
    if where == 'last':
        out['OBSOLETE_PRM'] = 1
    return out


def base_prms(rng, sc, k):
    """Base-height / separation parameters for the engineered C04/C06 families."""
    p = {}
    if k.get('lookback') is not None:
        p['BASE_LVL_LOOKBACK_PERC'] = float(k['lookback'])
    elif rng.uniform() < 0.7:
        p['BASE_LVL_LOOKBACK_PERC'] = float(rng.choice([100, 50, 20, 10, round(rng.uniform(1, 100), 2)]))
    if k.get('perc') is not None:
        p['BASE_LVL_HEIGHT_PERC'] = float(k['perc'])
    elif rng.uniform() < 0.6:
        p['BASE_LVL_HEIGHT_PERC'] = float(rng.choice([0, 5, 50, 100, round(rng.uniform(0, 100), 2)]))
    if k.get('exclude') == 'rand':
        p['EXCLUDE_FOR_BASE_HEIGHT_CALC'] = [n for n in sc['names'] if rng.uniform() < 0.6]
    if k.get('bins') is not None:
        nb = int(k['bins'])
    else:
        nb = int(rng.choice([0, 1, 1, 2, 3]))
    if nb:
        lims = sorted(float(x) for x in rng.choice([1500, 2300, 2900, 5000, 9800, 12000], nb - 1, replace=False))
        p['MIN_SEP_LIMS'] = lims
        p['MIN_SEP_VALS'] = [float(rng.choice([100, 250, 400, 1000])) for _ in range(nb)]
    return p


OKTA_COUNT_40 = {0: 2, 1: 5, 2: 10, 3: 15, 4: 20, 5: 25, 6: 30, 7: 35, 8: 40}


def flat_okta_case(rng, k):
    """Flat layers with prescribed okta classes and a prescribed position of the MSA.

    k: {'oktas': [..], 'msa': None | ['below'] | ['between', i] | ['at', i] | ['above'],
        'buffer': float, 'o0': int(optional)}   (40 measurements, MAX_HITS_OKTA0=3, HOLES=1 by
        default so that okta o <-> OKTA_COUNT_40[o] hits)
    """
    oktas = list(k['oktas'])
    n = len(oktas)
    spacing = float(k.get('spacing', 1500.0))
    h0 = float(k.get('h0', 1000.0))
    hs = [h0 if i == 0 else h0 + spacing * i for i in range(n)]          # keeps a -0.0 base
    layers = [{'h': h, 'count': OKTA_COUNT_40[o], 'std': 0.0} for h, o in zip(hs, oktas)]
    sc = scenes.flat_layers_scene(rng, layers, nce=k.get('nce', 1), nt=40 // k.get('nce', 1),
                                  order=k.get('order', 'asc'))
    sc['fam'] = 'flat'
    call = {'SLICING_PRMS': {'distance_threshold': 0.02}, 'MIN_SEP_VALS': [250, 1000]}
    m = k.get('msa')
    if m is None:
        call['MSA'] = None
    else:
        if m[0] == 'below':
            msa = h0 - 500.0
        elif m[0] == 'above':
            msa = hs[-1] + 500.0 if hs else 5000.0
        elif m[0] == 'between':
            msa = hs[m[1]] + spacing / 2
        elif m[0] == 'at':
            msa = hs[m[1]]
        elif m[0] == 'justbelow':
            msa = hs[m[1]] - 20.0      # inside the same 100-ft coding step for bases like x070
        elif m[0] == 'ulpabove':
            msa = float(np.nextafter(hs[m[1]], np.inf))
        elif m[0] == 'tinyabove':
            msa = hs[m[1]] * (1 + 4e-6) + 1e-4
        elif m[0] == 'ulpbelow':
            msa = float(np.nextafter(hs[m[1]], -np.inf))
        else:
            raise ValueError(m)
        call['MSA'] = float(msa)
        call['MSA_HIT_BUFFER'] = float(k.get('buffer', 1500.0))
    if 'o0' in k:
        call['MAX_HITS_OKTA0'] = int(k['o0'])
    return sc, {'call': call, 'glob': {}}


# ------------------------------------------------------------------------------------------------
# monitored execution


class Run:
    """Outcome of one monitored pipeline execution."""
    __slots__ = ('chunk', 'exc', 'tb', 'rec', 'df', 'eff', 'case', 'loc', 'msgs')


def execute(case, contracts=True, msgs=True):
    """Run the real pipeline on a materialised case under the recorder.  Never raises for
    exceptions of the code under test: they are returned in .exc (C08 decides about them)."""
    r = Run()
    r.case = case
    r.df = scenes.frame(case['scene'])
    r.eff = obs.effective(case['prm'])
    r.chunk = None
    r.exc = None
    r.tb = None
    r.loc = None
    r.msgs = None
    with instrument.recording(contracts=contracts) as rec:
        r.rec = rec
        try:
            r.chunk = obs.run(r.df, case['prm'])
            if msgs:
                r.msgs = {w: r.chunk.metar_msg(w) for w in obs.WHICH}
        except Exception as e:       # noqa - observed, not swallowed: reported through .exc
            r.exc = e
            r.tb = ''.join(traceback.format_exception(e))[-2000:]
            frames = [f for f in traceback.extract_tb(e.__traceback__) if '/ampycloud/' in f.filename]
            r.loc = '%s:%s' % (frames[-1].name, frames[-1].lineno) if frames else None
    return r


def case_digest(case):
    return obs.case_hash(case['scene']['rows'], case['prm'])


def small_sample(case, extra=None):
    sc = case['scene']
    s = {'family': sc.get('fam'), 'n_rows': len(sc['rows']), 'ceilos': sc['names'],
         'row_order': sc.get('order'), 'first_rows': sc['rows'][:4], 'prms_call': case['prm']['call'],
         'prms_global': case['prm']['glob']}
    if extra:
        s.update(extra)
    return s
