"""Twin-run (metamorphic) helpers: run two related inputs and compare canonical observations."""
import traceback
from . import obs


def observe_run(df, prm, msgs=True):
    """-> (observation dict | None, exception | None)"""
    try:
        ch = obs.run(df, prm)
        return obs.observe(ch, msgs=msgs), None
    except Exception as e:      # noqa - reported by the caller
        return None, e


def tables_only(o):
    return {k: o[k] for k in ('slices', 'groups', 'layers')}


def exc_info(e):
    fr = [f for f in traceback.extract_tb(e.__traceback__) if '/ampycloud/' in f.filename]
    return {'exc': type(e).__name__, 'msg': str(e)[:200], 'where': '%s:%s' % (fr[-1].name, fr[-1].lineno) if fr else None}
