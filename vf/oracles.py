"""Deterministic oracles over observations of a processed chunk.

Every oracle appends violation dicts {'prop', 'clause', ...witness...} to `viol` and coverage tags
to `tags` (a set).  None of them knows the expected message: they recompute what the property says
from the hits and the parameters.
"""
import re
import math
import numpy as np
import pandas as pd

GRP = re.compile(r'^(FEW|SCT|BKN|OVC)(\d{3})$')
MINOKTA = {'FEW': 1, 'SCT': 3, 'BKN': 5, 'OVC': 8}
ABBR = {0: 'NCD', 1: 'FEW', 2: 'FEW', 3: 'SCT', 4: 'SCT', 5: 'BKN', 6: 'BKN', 7: 'BKN', 8: 'OVC'}
WHICH = ['slices', 'groups', 'layers']


def V(viol, prop, clause, **kw):
    viol.append(dict(prop=prop, clause=clause, **{k: _j(v) for k, v in kw.items()}))


def _j(v):
    if isinstance(v, (np.floating,)):
        return float(v)
    if isinstance(v, (np.integer,)):
        return int(v)
    if isinstance(v, (np.bool_,)):
        return bool(v)
    if isinstance(v, np.ndarray):
        return v.tolist()
    if isinstance(v, (set, tuple)):
        return [_j(x) for x in v]
    if isinstance(v, list):
        return [_j(x) for x in v]
    if isinstance(v, dict):
        return {str(k): _j(x) for k, x in v.items()}
    return v


def floor_code(base):
    return math.floor(base / 100) if base <= 10000 else math.floor(base / 1000) * 10


# ------------------------------------------------------------------------------------------------
# C01 / C02 : the message


def check_message(msg, tab, msa, flag, viol, tags, which='layers', n_hits_above=None,
                  max_hits_okta0=None, props=('C01', 'C02')):
    """msg: the string returned by metar_msg(which); tab: the table it was built from."""
    msa_v = np.inf if msa is None else msa
    okta = tab['okta'].to_numpy() if len(tab) else np.array([], dtype=int)
    base = tab['height_base'].to_numpy(dtype=float) if len(tab) else np.array([])
    code = tab['code'].tolist() if len(tab) else []
    groups = []
    c01 = 'C01' in props
    c02 = 'C02' in props
    if not isinstance(msg, str):
        V(viol, 'C01', 'not a string', which=which, msg=repr(msg))
        return
    if msg in ('NCD', 'NSC'):
        tags.add('msg:' + msg)
    else:
        groups = msg.split(' ')
        tags.add('msg:%dgroups' % len(groups) if 1 <= len(groups) <= 3 else 'msg:weird')
        hs = []
        ok = True
        if c01 and not 1 <= len(groups) <= 3:
            V(viol, 'C01', 'number of groups', which=which, msg=msg)
        for k, g in enumerate(groups):
            m = GRP.match(g)
            if not m:
                if c01:
                    V(viol, 'C01', 'grammar', which=which, msg=msg, group=g)
                ok = False
                continue
            hs.append(int(m.group(2)))
            if c01 and k == 1 and MINOKTA[m.group(1)] < 3:
                V(viol, 'C01', 'second group below SCT', which=which, msg=msg)
            if c01 and k == 2 and MINOKTA[m.group(1)] < 5:
                V(viol, 'C01', 'third group below BKN', which=which, msg=msg)
        if c01 and ok and hs != sorted(hs):
            V(viol, 'C01', 'groups not in non-decreasing height order', which=which, msg=msg)
        for g in groups:
            rows = [i for i, c in enumerate(code) if c == g]
            if not rows:
                if c02:
                    V(viol, 'C02', 'group is not the code of a listed layer', which=which, msg=msg,
                      group=g, codes=code)
                continue
            if c01 and not any(okta[i] >= 1 and base[i] < msa_v for i in rows):
                V(viol, 'C01', 'group stands for a zero-okta layer or one at/above the MSA',
                  which=which, msg=msg, group=g, okta=[okta[i] for i in rows],
                  base=[base[i] for i in rows], msa=msa)
    # --- coverage classes
    rep = [i for i in range(len(code)) if okta[i] >= 1 and base[i] < msa_v]
    if len(rep) > 3:
        tags.add('gt3_reportable')
    if any(okta[i] == 0 and any(j > i for j in rep) for i in range(len(code))):
        tags.add('zero_okta_below_reported')
    if msa is not None and any(base[i] == msa for i in range(len(code))):
        tags.add('base_eq_msa')
    if not c02:
        return
    # --- C02
    if rep:
        if not groups or groups[0] != code[rep[0]]:
            V(viol, 'C02', 'first group is not the lowest layer of >=1 okta below the MSA',
              which=which, msg=msg, expected=code[rep[0]], okta=okta, base=base, msa=msa)
        ceil = [i for i in rep if okta[i] >= 5]
        if ceil:
            if rep.index(ceil[0]) >= 2:
                tags.add('ceiling_after_2_lower')
            if code[ceil[0]] not in groups:
                V(viol, 'C02', 'ceiling missing from the message', which=which, msg=msg,
                  ceiling=code[ceil[0]], okta=okta, base=base, msa=msa)
    else:
        in_buffer = any(okta[i] >= 1 and base[i] >= msa_v for i in range(len(code)))
        cloud = in_buffer or bool(flag)
        if in_buffer:
            tags.add('nsc_by_layer_at_or_above_msa')
        elif flag:
            tags.add('nsc_by_flag_only')
        elif len(code):
            tags.add('ncd_with_zero_okta_rows')
        else:
            tags.add('ncd_no_rows')
        if cloud and msg != 'NSC':
            V(viol, 'C02', 'NSC expected (cloud exists, none reportable below the MSA)',
              which=which, msg=msg, okta=okta, base=base, msa=msa, flag=bool(flag))
        if not cloud and msg != 'NCD':
            V(viol, 'C02', 'NCD expected (no layer of >=1 okta, flag not set)', which=which,
              msg=msg, okta=okta, base=base, msa=msa, flag=bool(flag))
        if msg == 'NSC' and not in_buffer and n_hits_above is not None and n_hits_above <= max_hits_okta0:
            V(viol, 'C02', 'NSC although no layer of >=1 okta exists and the hits above MSA+buffer do not exceed MAX_HITS_OKTA0',
              which=which, n_above=n_hits_above, max_hits_okta0=max_hits_okta0, flag=bool(flag))
        if n_hits_above is not None and n_hits_above == max_hits_okta0 and n_hits_above > 0:
            tags.add('n_above_eq_MAX_HITS_OKTA0_nothing_reportable')
        if msg == 'NCD' and n_hits_above is not None and n_hits_above > max_hits_okta0:
            V(viol, 'C02', 'NCD although the hits cropped above MSA+buffer exceed MAX_HITS_OKTA0',
              which=which, n_above=n_hits_above, max_hits_okta0=max_hits_okta0)


# ------------------------------------------------------------------------------------------------
# C03 : counts, percentages, oktas


def expected_okta(n, tot, o0, h8):
    """-> (set of acceptable oktas)."""
    if n <= o0:
        return {0}
    if tot - n <= h8:
        return {8}
    x = min(max(8.0 * n / tot, 1.0), 7.0)
    lo, hi = math.floor(x), math.ceil(x)
    if x - lo < 0.5:
        return {lo}
    if x - lo > 0.5:
        return {hi}
    return {lo, hi}       # exact half-okta tie: documentation and np.round disagree


def members_of(data, which, cid):
    return data[data[which[:-1] + '_id'].to_numpy() == cid]


def check_counts(chunk, viol, tags, which_list=WHICH):
    d = chunk.data
    tot = len(d[['ceilo', 'dt']].drop_duplicates())
    if tot != chunk.max_hits_per_layer:
        V(viol, 'C03', 'total number of measurements', expected=tot, got=chunk.max_hits_per_layer)
    o0, h8 = chunk.prms['MAX_HITS_OKTA0'], chunk.prms['MAX_HOLES_OKTA8']
    if d['ceilo'].nunique() >= 2:
        per = d[['ceilo', 'dt']].drop_duplicates()
        if per['dt'].duplicated().any():
            tags.add('coincident_stamps_2ceilos')
    n_eval = 0
    nontriv = 0
    for which in which_list:
        tab = getattr(chunk, which)
        if tab is None:
            continue
        for _, r in tab.iterrows():
            mem = members_of(d, which, r['cluster_id'])
            n = len(mem[['ceilo', 'dt']].drop_duplicates())
            n_eval += 1
            nontriv += len(mem) >= 2
            if len(mem) > n:
                tags.add('multi_hit_measurement_in_set')
            if n != r['n_hits']:
                V(viol, 'C03', 'n_hits != distinct (ceilo, dt) among members', which=which,
                  cid=r['cluster_id'], expected=n, got=r['n_hits'], member_rows=len(mem))
            exp_perc = n / tot * 100
            if not abs(r['perc'] - exp_perc) <= 1e-12 * max(1.0, exp_perc):
                V(viol, 'C03', 'perc != n/total*100', which=which, expected=exp_perc, got=r['perc'])
            acc = expected_okta(n, tot, o0, h8)
            if int(r['okta']) not in acc:
                V(viol, 'C03', 'okta', which=which, n=n, total=tot, max_hits_okta0=o0,
                  max_holes_okta8=h8, expected=sorted(acc), got=int(r['okta']))
            if len(acc) == 2:
                tags.add('half_okta_tie')
            tags.add('okta%d' % int(r['okta']))
            if n == o0:
                tags.add('n_eq_MAX_HITS_OKTA0')
            if n > o0 and tot - n == h8:
                tags.add('holes_eq_MAX_HOLES_OKTA8')
            if 0 <= int(r['okta']) <= 8 and not str(r['code']).startswith(ABBR[int(r['okta'])]):
                V(viol, 'C03', 'code prefix is not the WMO abbreviation of the okta', which=which,
                  okta=int(r['okta']), code=r['code'])
    return n_eval, nontriv


# ------------------------------------------------------------------------------------------------
# C04 : base height, statistics, coding, ordering


def expected_base(mem, prms, tags=None):
    """Recompute the base of one set from its member hits.

    Returns (lo, hi, alt) : the base must lie in [lo, hi] (lo == hi -> bit-exact); `alt` is an
    alternative acceptable (lo, hi) pair (documentation reading of the exclusion fall-back) or None.
    """
    excl = prms['EXCLUDE_FOR_BASE_HEIGHT_CALC']
    o0 = prms['MAX_HITS_OKTA0']

    def base_of(sel):
        sel = sel.sort_values('dt', kind='stable')
        t = sel['dt'].to_numpy()
        h = sel['height'].to_numpy()
        n = len(h)
        k = int(n * prms['BASE_LVL_LOOKBACK_PERC'] / 100)
        if k == 0:
            k = n
        if tags is not None and k < n:
            tags.add('lookback_lt_all')
        cut = n - k
        p = prms['BASE_LVL_HEIGHT_PERC']
        if cut > 0 and t[cut - 1] == t[cut]:
            # the cut falls inside a group of equal time stamps: any consistent choice among the
            # tied hits is legitimate (the sort in use is unstable)
            if tags is not None:
                tags.add('tie_at_cut')
            tie = np.where(t == t[cut])[0]
            inside = int((tie >= cut).sum())
            fixed = h[tie.max() + 1:]
            th = np.sort(h[tie])
            lo = np.percentile(np.concatenate([th[:inside], fixed]), p)
            hi = np.percentile(np.concatenate([th[len(th) - inside:], fixed]), p)
            return float(lo), float(hi)
        b = float(np.percentile(h[cut:], p))
        return b, b

    alt = None
    if excl != []:
        if tags is not None:
            tags.add('exclusion_list')
        filt = mem[~mem['ceilo'].isin(list(excl))]
        if len(filt) > o0:
            if tags is not None and len(filt) < len(mem):
                tags.add('exclusion_used')
            return base_of(filt) + (None,)
        if tags is not None:
            tags.add('exclusion_fallback')
    return base_of(mem) + (alt,)


def check_heights(chunk, viol, tags, which_list=WHICH):
    d = chunk.data
    prms = chunk.prms
    n_eval = 0
    nontriv = 0
    for which in which_list:
        tab = getattr(chunk, which)
        if tab is None:
            continue
        bases = tab['height_base'].to_numpy(dtype=float)
        if (np.diff(bases) < 0).any():
            V(viol, 'C04', 'table not sorted by ascending base', which=which, bases=bases)
        for _, r in tab.iterrows():
            mem = members_of(d, which, r['cluster_id'])
            h = mem['height'].to_numpy(dtype=float)
            if len(h) == 0 or np.isnan(h).any():
                V(viol, 'C05', 'set without member hits / with NaN members', which=which,
                  cid=r['cluster_id'])
                continue
            n_eval += 1
            nontriv += len(np.unique(h)) >= 2
            b = float(r['height_base'])
            if not h.min() <= b <= h.max():
                V(viol, 'C04', 'base outside [min, max] of the member hits', which=which, base=b,
                  hmin=h.min(), hmax=h.max())
            lo, hi, alt = expected_base(mem, prms, tags)
            eps_b = 1e-9 * max(1.0, abs(b))      # an equally valid percentile routine may differ in the last bits
            ok = lo - eps_b <= b <= hi + eps_b or (alt is not None and alt[0] <= b <= alt[1])
            if not ok:
                V(viol, 'C04', 'base != configured percentile of the selected member hits',
                  which=which, cid=r['cluster_id'], got=b, expected=[lo, hi], alt=alt,
                  n_members=len(h), perc=prms['BASE_LVL_HEIGHT_PERC'],
                  lookback=prms['BASE_LVL_LOOKBACK_PERC'],
                  exclude=list(prms['EXCLUDE_FOR_BASE_HEIGHT_CALC']))
            if r['height_min'] != h.min() or r['height_max'] != h.max():
                V(viol, 'C04', 'height_min/height_max', which=which, got=[r['height_min'], r['height_max']],
                  expected=[h.min(), h.max()])
            tol = 1e-9 * max(1.0, abs(h).max())
            if abs(r['height_mean'] - h.mean()) > tol:
                V(viol, 'C04', 'height_mean', which=which, got=r['height_mean'], expected=h.mean())
            if len(h) == 1:
                if not np.isnan(r['height_std']):
                    V(viol, 'C04', 'height_std of a single hit should be NaN', got=r['height_std'])
            elif abs(r['height_std'] - h.std(ddof=1)) > tol:
                V(viol, 'C04', 'height_std', which=which, got=r['height_std'], expected=h.std(ddof=1))
            if abs(r['thickness'] - (h.max() - h.min())) > tol:
                V(viol, 'C04', 'thickness', which=which, got=r['thickness'], expected=h.max() - h.min())
            f = r['fluffiness']
            if not (np.isfinite(f) and f >= 0):
                V(viol, 'C04', 'fluffiness not finite and non-negative', which=which, got=f, n=len(h))
            code = str(r['code'])
            digits = code[3:]
            if b < 0:
                tags.add('negative_base')     # accepted with a warning; coded as a signed floor, e.g. -01
            if not (len(code) == 6 and (digits.isdigit() or (b < 0 and digits[0] == '-' and digits[1:].isdigit()))):
                V(viol, 'C04', 'code not <3 letters><3 digits>', which=which, code=code)
                continue
            if int(digits) != floor_code(b):
                V(viol, 'C04', 'code digits != floored base', which=which, code=code, base=b)
            if 100 * int(digits) > b:
                V(viol, 'C04', 'base coded upward', which=which, code=code, base=b)
            if b > 10000:
                tags.add('base_gt_10000')
            if abs(b - round(b, -2)) <= 1.0:
                tags.add('base_near_coding_boundary')
    return n_eval, nontriv


# ------------------------------------------------------------------------------------------------
# C05 : accounting


def expected_crop(df_in, eff):
    """Coerced input after the documented crop rule, as a sorted list of tuples."""
    msa = eff.get('MSA')
    rows = []
    n_above = 0
    for c, t, h, k in zip(df_in['ceilo'].astype(str), df_in['dt'].astype(float),
                          df_in['height'].astype(float), df_in['type'].astype(int)):
        if msa is not None and h == h and h > msa + eff['MSA_HIT_BUFFER']:
            n_above += 1
            if k <= 1:
                rows.append((c, float(t), None, 0))
            continue
        rows.append((c, float(t), None if h != h else float(h), int(k)))
    return rows, n_above


def _rowkey(r):
    return (r[0], r[1], -1.0 if r[2] is None else r[2], r[2] is None, r[3])


def check_accounting(chunk, df_in, eff, viol, tags, stage='layers'):
    """Stage boundary audit.  stage in slices/groups/layers = last stage that has run."""
    d = chunk.data
    upto = WHICH[:WHICH.index(stage) + 1]
    valid = d['height'].notna().to_numpy()
    if valid.sum() == 1:
        tags.add('single_valid_hit')
    if valid.sum() == 0:
        tags.add('all_nan')
    for which in upto:
        col = which[:-1] + '_id'
        tab = getattr(chunk, which)
        ids = d[col].to_numpy()
        try:
            ids_i = ids.astype(int)
        except (TypeError, ValueError):
            V(viol, 'C05', 'non-integer ids', which=which)
            continue
        if ((ids_i == -1) != (~valid)).any():
            V(viol, 'C05', 'id == -1 must hold exactly for the non-detections', which=which,
              n_bad=int(((ids_i == -1) != (~valid)).sum()))
        if (ids_i < -1).any():
            V(viol, 'C05', 'id below -1', which=which)
        uids = sorted(set(ids_i[ids_i != -1].tolist()))
        if sorted(tab['cluster_id'].tolist()) != uids:
            V(viol, 'C05', 'table cluster ids != ids present in the per-hit assignment',
              which=which, table=sorted(tab['cluster_id'].tolist()), hits=uids)
        if getattr(chunk, 'n_' + which) != len(tab) or len(tab) != len(uids):
            V(viol, 'C05', 'n_%s != number of sets' % which, n=getattr(chunk, 'n_' + which),
              table=len(tab), ids=len(uids))
        if which == 'slices' and len(uids) > 100:
            tags.add('gt100_slices')
    if 'groups' in upto:
        g = d['group_id'].to_numpy().astype(int)
        s = d['slice_id'].to_numpy().astype(int)
        if len(set(g[g != -1].tolist())) < len(set(s[s != -1].tolist())):
            tags.add('groups_fewer_than_slices')
    if 'layers' in upto:
        lay = d['layer_id'].to_numpy().astype(int)
        g = d['group_id'].to_numpy().astype(int)
        for lid in sorted(set(lay[lay != -1].tolist())):
            gs = set(g[lay == lid].tolist())
            if len(gs) != 1:
                V(viol, 'C05', 'one layer spans several groups', layer_id=lid, groups=sorted(gs))
        for _, r in chunk.groups.iterrows():
            lids = set(lay[g == r['cluster_id']].tolist())
            k = int(r['ncomp']) if r['ncomp'] > 1 else 1
            if k > 1:
                tags.add('group_split_in_%d' % k)
            if len(lids) != k:
                V(viol, 'C05', 'group with k sub-components must yield exactly k layers',
                  group=int(r['cluster_id']), ncomp=int(r['ncomp']), layers=sorted(lids))
    # conservation of the hits
    exp, n_above = expected_crop(df_in, eff)
    if n_above:
        tags.add('msa_crop_active')
    got = [(c, float(t), None if h != h else float(h), int(k)) for c, t, h, k in
           zip(d['ceilo'].astype(str), d['dt'], d['height'], d['type'])]
    if sorted(map(_rowkey, exp)) != sorted(map(_rowkey, got)):
        a = sorted(map(_rowkey, exp))
        b = sorted(map(_rowkey, got))
        only_exp = [x for x in a if x not in set(b)][:5]
        only_got = [x for x in b if x not in set(a)][:5]
        V(viol, 'C05', 'hits created, lost or altered', n_expected=len(exp), n_got=len(got),
          only_expected=only_exp, only_got=only_got)
    return n_above


# ------------------------------------------------------------------------------------------------
# C06 : separation


def min_sep_for(prms, h, lenient=False):
    lims = list(prms['MIN_SEP_LIMS'])
    vals = list(prms['MIN_SEP_VALS'])
    i = int(np.searchsorted(lims, h))      # number of limits strictly below h
    ms = vals[i]
    if lenient and i < len(lims) and h == lims[i]:
        ms = min(ms, vals[i + 1])          # exactly at a limit: the smaller of the adjacent values
    return ms


def check_group_separation(chunk, viol, tags):
    gb = chunk.groups['height_base'].to_numpy(dtype=float)
    n_pairs = 0
    close = 0
    if len(chunk.prms['MIN_SEP_LIMS']) >= 1:
        tags.add('gt1_sep_bin')
    for k in range(1, len(gb)):
        ms = min_sep_for(chunk.prms, gb[k], lenient=True)
        n_pairs += 1
        if gb[k] - gb[k - 1] < 2 * ms:
            close += 1
        if gb[k] - gb[k - 1] < ms:
            V(viol, 'C06', 'two groups closer than the minimum separation', lower=gb[k - 1],
              upper=gb[k], min_sep=ms, exclude=list(chunk.prms['EXCLUDE_FOR_BASE_HEIGHT_CALC']),
              lookback=chunk.prms['BASE_LVL_LOOKBACK_PERC'], perc=chunk.prms['BASE_LVL_HEIGHT_PERC'])
    return n_pairs, close


def check_layer_separation(chunk, raw_ncomps, viol, tags):
    """raw_ncomps: list of raw component counts chosen by best_gmm, in the order the groups that
    reached the mixture model were processed (same order as rows of chunk.groups with ncomp != -1
    whose heights are not all identical)."""
    d = chunk.data
    lay = d['layer_id'].to_numpy().astype(int)
    g = d['group_id'].to_numpy().astype(int)
    fitted = [i for i in range(len(chunk.groups)) if chunk.groups.at[i, 'ncomp'] != -1]
    n_pairs = 0
    close = 0
    if len(fitted) != len(raw_ncomps):
        tags.add('raw_ncomp_unmatched')
        return 0, 0
    for i, raw in zip(fitted, raw_ncomps):
        r = chunk.groups.iloc[i]
        k = int(r['ncomp'])
        if k < 2:
            continue
        if k != raw:
            tags.add('split_with_remerge')
            continue
        if chunk.prms['EXCLUDE_FOR_BASE_HEIGHT_CALC'] != []:
            tags.add('split_with_exclusion')
            continue
        tags.add('split_raw_eq_final')
        lids = sorted(set(lay[g == r['cluster_id']].tolist()))
        b = sorted(chunk.layers[chunk.layers['cluster_id'].isin(lids)]['height_base'].tolist())
        ms = min_sep_for(chunk.prms, float(r['height_base']))
        for j in range(1, len(b)):
            n_pairs += 1
            if b[j] - b[j - 1] < 2 * ms:
                close += 1
            if b[j] - b[j - 1] < ms:
                V(viol, 'C06', 'two layers split from one group closer than its minimum separation',
                  group_base=float(r['height_base']), lower=b[j - 1], upper=b[j], min_sep=ms,
                  lookback=chunk.prms['BASE_LVL_LOOKBACK_PERC'],
                  perc=chunk.prms['BASE_LVL_HEIGHT_PERC'], ncomp=k)
    return n_pairs, close
