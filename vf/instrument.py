"""Recording wrappers and icontract contracts (record-and-continue mode) attached from outside.

data.py reaches its helpers through module attributes (wmo.height2code, icao.significant_cloud,
utils.calc_base_height, layer.ncomp_from_gmm, cluster.clusterize, fluffer.get_fluffiness,
scaler.apply_scaling) and layer.ncomp_from_gmm calls best_gmm as a module global, so replacing the
attributes observes the in-situ calls.  Contract conditions *record* and return True: a broken
contract never aborts the execution it observes.
"""
import contextlib
import math
import numpy as np

try:
    import icontract
except Exception:  # pragma: no cover - bootstrap installs it
    icontract = None


class ContractBroken(Exception):
    """Never raised in record mode; required by icontract's `error=`."""


class Recorder:
    def __init__(self):
        self.events = []          # (kind, payload)
        self.broken = []          # contract violations: dicts
        self.counts = {}

    def ev(self, kind, payload):
        self.events.append((kind, payload))
        self.counts[kind] = self.counts.get(kind, 0) + 1

    def of(self, kind):
        return [p for k, p in self.events if k == kind]

    def brk(self, prop, fn, why, **kw):
        self.broken.append(dict(prop=prop, clause='contract:' + fn, why=why, **kw))


REC = None     # the active recorder (one per worker process; single-threaded use)


def _icao_fold(oktas):
    out, n = [], 0
    for o in oktas:
        ok = n < 3 and o >= (1, 3, 5)[n]
        out.append(bool(ok))
        n += ok
    return out


# --- contract conditions (argument names must match the decorated function's) --------------------

def post_significant_cloud(oktas, result):
    r = REC
    if r is not None:
        r.ev('significant_cloud', (list(oktas), list(result)))
        if len(result) != len(oktas) or [bool(x) for x in result] != _icao_fold(list(oktas)):
            r.brk('C17', 'significant_cloud', 'flags differ from the 1-3-5 fold',
                  oktas=[int(o) for o in oktas], got=[bool(x) for x in result])
    return True


def post_height2code(val, result):
    r = REC
    if r is not None:
        r.ev('height2code', (float(val), result))
        if not (val != val):
            exp = math.floor(val / 100) if val <= 10000 else math.floor(val / 1000) * 10
            digits_ok = isinstance(result, str) and len(result) == 3 and \
                (result.isdigit() or (val < 0 and result[0] == '-' and result[1:].isdigit()))   # signed floor below 0
            if not (digits_ok and int(result) == exp and 100 * int(result) <= val):
                r.brk('C18', 'height2code', 'not the three-digit floor', val=float(val), got=result)
    return True


def post_perc2okta(val, result):
    r = REC
    if r is not None:
        r.ev('perc2okta', (np.asarray(val, dtype=float).tolist(), np.asarray(result).tolist()))
    return True


def post_calc_base_height(vals, lookback_perc, height_perc, result):
    r = REC
    if r is not None:
        v = np.asarray(vals, dtype=float)
        r.ev('calc_base_height', (len(v), float(lookback_perc), float(height_perc), float(result)))
        if len(v) and not (np.nanmin(v) <= result <= np.nanmax(v)):
            r.brk('C04', 'calc_base_height', 'result outside the values', n=len(v), got=float(result))
    return True


def post_get_fluffiness(pts, result):
    r = REC
    if r is not None:
        f = float(result[0])
        r.ev('get_fluffiness', (len(pts), f))
        if not (math.isfinite(f) and f >= 0):
            r.brk('C04', 'get_fluffiness', 'fluffiness not finite/non-negative', n=len(pts), got=f)
    return True


def post_ncomp_from_gmm(vals, result):
    r = REC
    if r is not None:
        ncomp, ids, _ = result
        ids = np.asarray(ids)
        nu = len(np.unique(ids))
        r.ev('ncomp_from_gmm', (int(ncomp), nu, len(ids), len(vals)))
        if nu != int(ncomp) or len(ids) != len(vals):
            r.brk('C05', 'ncomp_from_gmm', 'component count != populated labels or label vector '
                  'of the wrong length', ncomp=int(ncomp), labels=nu, n=len(vals), nids=len(ids))
    return True


def post_apply_scaling(vals, fct, result):
    r = REC
    if r is not None:
        v = np.asarray(vals, dtype=float)
        o = np.asarray(result, dtype=float)
        r.ev('apply_scaling', (str(fct), len(v)))
        if fct is not None and v.shape == o.shape and v.ndim == 1 and len(v):
            if (np.isnan(v) != np.isnan(o)).any():
                r.brk('C19', 'apply_scaling', 'NaN positions not preserved', fct=str(fct))
            else:
                m = ~np.isnan(v)
                if m.sum() > 1:
                    idx = np.argsort(v[m], kind='stable')
                    if (np.diff(o[m][idx]) < 0).any():
                        r.brk('C19', 'apply_scaling', 'order reversed', fct=str(fct))
    return True


CONTRACTS = [
    ('ampycloud.icao', 'significant_cloud', post_significant_cloud),
    ('ampycloud.wmo', 'height2code', post_height2code),
    ('ampycloud.wmo', 'perc2okta', post_perc2okta),
    ('ampycloud.utils.utils', 'calc_base_height', post_calc_base_height),
    ('ampycloud.fluffer', 'get_fluffiness', post_get_fluffiness),
    ('ampycloud.layer', 'ncomp_from_gmm', post_ncomp_from_gmm),
    ('ampycloud.scaler', 'apply_scaling', post_apply_scaling),
]


@contextlib.contextmanager
def recording(contracts=True, gmm=True, merges=True):
    """Attach the contracts/wrappers, yield the Recorder, detach."""
    global REC
    import importlib
    from ampycloud import layer, data
    rec = Recorder()
    saved = []
    prev = REC
    REC = rec
    try:
        if contracts and icontract is not None:
            for modname, fname, cond in CONTRACTS:
                mod = importlib.import_module(modname)
                orig = getattr(mod, fname)
                saved.append((mod, fname, orig))
                setattr(mod, fname, icontract.ensure(cond, error=ContractBroken, enabled=True)(orig))
        if gmm:
            orig_best = layer.best_gmm
            saved.append((layer, 'best_gmm', orig_best))

            def best_gmm_spy(abics, *a, **kw):
                out = orig_best(abics, *a, **kw)
                rec.ev('best_gmm', int(out) + 1)
                return out
            layer.best_gmm = best_gmm_spy
        if merges:
            cls = data.CeiloChunk
            orig_merge = cls._merge_close_groups
            saved.append((cls, '_merge_close_groups', orig_merge))

            def merge_spy(self):
                before = self.data['group_id'].to_numpy().copy()
                out = orig_merge(self)
                after = self.data['group_id'].to_numpy()
                nb = len(set(before[before != -1].tolist()))
                na = len(set(after[after != -1].tolist()))
                merged_into = sorted(set(after[before != after].tolist()))
                rec.ev('merge', (nb, na, merged_into))
                return out
            cls._merge_close_groups = merge_spy
        yield rec
    finally:
        for obj, name, orig in reversed(saved):
            setattr(obj, name, orig)
        REC = prev
