"""C12 - All documented ways of setting parameters are equivalent; reset restores all."""
import os
import copy
import itertools
import tempfile
import warnings
import numpy as np
import pandas as pd
from .. import scenes, obs, oracles, pipeline, twin

ID, NUM, LEVEL = 'C12', 12, 'exploration'
RULE = ('(Routes are also run in workers under a legacy non-UTF-8 locale with non-ASCII instrument names in the exclusion list; per-call dictionaries naming every top-level key with partial sections; unknown entries listed first.) ' 'Evaluation = one scene run with the same effective parameter values through four routes: (1) per-call '
        'dict, (2) in-place edits of dynamic.AMPYCLOUD_PRMS, (3) a YAML file written by the harness + set_prms, '
        '(4) a per-call dict naming EVERY leaf while the global holds poison (wrong-typed sentinels in every leaf '
        'except MPL_STYLE), so that a stray read of the live global changes the digest or raises. Oracle: the four '
        'canonical observations are bit-identical; after route (3) the global equals the defaults overridden by '
        'exactly the named keys; unknown keys raise exactly one AmpycloudWarning each and add no key; per-call '
        'None values override; the global is unchanged by per-call runs; after reset_prms() the global equals an '
        'independent parse of the packaged YAML, after reset_prms(S) exactly the names in S are default and the '
        'others keep their edits (also after nested in-place edits), an unknown name raises AmpycloudError. '
        'Workload: generated scenes x generated nested partial parameter sets; subsets S of the 14 top-level '
        'names. Non-trivial = >= 1 nested key overridden; distinct = hash of (rows, parameters).')
ASSUMPTIONS = ['scaling modes other than minmax-scale can only be installed by replacing SLICING_PRMS in the global dictionary '
               '(per-call and YAML routes merge into height_scale_kwargs), so route equivalence is checked for minmax-scale',
               'the packaged YAML is parsed independently with ruamel.yaml as the reference for reset']
REQUIRED = ['routes_4', 'yaml_route', 'poisoned_global', 'unknown_key_warning', 'unknown_keys_listed_first', 'all_top_level_keys_sections_partial', 'non_ascii_exclusion_under_legacy_locale', 'legacy_locale_mode', 'none_override', 'reset_all_after_nested_edit',
            'reset_subset_after_nested_edit', 'reset_unknown_name', 'nested_override', 'dict_subclass_sections', 'global_route_with_history']
SIZES = {'quick': dict(scenes=110, subsets=200), 'thorough': dict(scenes=1500, subsets=2 ** 14)}
EXHAUSTIVE = {'thorough': 'all 2^14 subsets of the top-level parameter names passed to reset_prms (reset part only)'}


LEGACY_LOCALE_SHARDS = True


def plan(tier, seed):
    z = SIZES[tier]
    out = [{'fam': 'routes', 's': seed, 'i': i} for i in range(z['scenes'])]
    # the routes once more in workers running under a legacy locale (LC_ALL=C, UTF-8 mode off), with non-ASCII
    # instrument names in the exclusion list (the YAML file is UTF-8, whatever the locale)
    out += [{'fam': 'routes', 's': seed, 'i': 50000 + i, 'legacy_locale': True} for i in range(8 if tier == 'quick' else 96)]
    per = 100 if tier == 'quick' else 512
    for j in range(z['subsets'] // per):
        out.append({'fam': 'reset', 'lo': j * per, 'n': per, 'all': tier == 'thorough', 's': seed, 'i': 100000 + j})
    return out


def poison(d):
    for k, v in d.items():
        if k == 'MPL_STYLE':
            continue
        if isinstance(v, dict):
            poison(v)
        else:
            d[k] = 'POISON'      # wrong type for every consumer: any stray read raises or changes the result


def nested_edit(glob, prm):
    """Route 2: in-place edits of the global, leaf by leaf (lists replaced as values)."""
    for k, v in prm.items():
        if isinstance(v, dict):
            nested_edit(glob[k], v)
        else:
            glob[k] = copy.deepcopy(v)


def leaves(d, pre=()):
    for k, v in d.items():
        if isinstance(v, dict):
            yield from leaves(v, pre + (k,))
        else:
            yield pre + (k,), v


def check_routes(desc):
    import ampycloud
    from ampycloud import dynamic
    from ampycloud.errors import AmpycloudWarning
    from ruamel.yaml import YAML
    rng = scenes.rng_for(desc['s'], NUM, desc['i'])
    viol, tags = [], set()
    if desc.get('legacy_locale'):
        sc = scenes.gen_scene(rng, maxrows=250, nce=int(rng.choice([2, 3, 4])), names=['Z\u00fcrich', 'Gen\u00e8ve', 'Sion\u2708', 'B\u00e2le'][:4])
        sc['names'] = sorted(set(r[0] for r in sc['rows']))
    else:
        sc = scenes.gen_scene(rng, maxrows=250)
    p = scenes.gen_prms(rng, sc, scaling=False, rich=True)['call']
    if desc.get('legacy_locale'):
        p['EXCLUDE_FOR_BASE_HEIGHT_CALC'] = [sc['names'][int(rng.integers(len(sc['names'])))]]
        tags.add('non_ascii_exclusion_under_legacy_locale')
    if desc['i'] % 5 == 2:
        # every top-level name given, the sections only partly (values = the packaged ones: no effect expected)
        dflt = obs.defaults()
        for k, v in dflt.items():
            if k not in p:
                p[k] = {kk: copy.deepcopy(vv) for kk, vv in list(v.items())[:1]} if isinstance(v, dict) else copy.deepcopy(v)
        tags.add('all_top_level_keys_sections_partial')
    if desc['i'] % 2 == 0 and len(sc['names']) >= 2:
        p['EXCLUDE_FOR_BASE_HEIGHT_CALC'] = [sc['names'][int(rng.integers(len(sc['names'])))]]
    if desc['i'] % 3 == 0:
        p['MSA'] = None
        tags.add('none_override')
    if desc['i'] % 4 == 1:
        p.setdefault('LAYERING_PRMS', {}).setdefault('gmm_kwargs', {})['rescale_0_to_x'] = None
        tags.add('none_override')
    if any(isinstance(v, dict) for v in p.values()):
        tags.add('nested_override')
    defaults = obs.defaults()
    eff = obs.effective({'call': p, 'glob': {}})
    res = {'evals': 0, 'nontrivial': [], 'counters': {'runs': 0}, 'viol': viol}
    if scenes.empties_chunk(sc, eff):
        res['tags'] = ['skipped_empty_after_crop']
        return res
    df = scenes.frame(sc)
    outs = {}

    def run_route(name, fn):
        ampycloud.reset_prms()
        with warnings.catch_warnings(record=True) as wl:
            warnings.simplefilter('always')
            try:
                ch = fn()
                outs[name] = obs.observe(ch)
            except Exception as e:      # noqa
                outs[name] = {'exception': twin.exc_info(e)}
        res['counters']['runs'] += 1
        return wl

    # (1) per call, global = defaults; the global must stay the defaults; exactly the named keys are overridden
    kept = {}

    def r1():
        ch = ampycloud.run(df, prms=copy.deepcopy(p))
        kept['prms'] = copy.deepcopy(ch.prms)
        return ch
    run_route('per_call', r1)
    if 'prms' in kept and kept['prms'] != eff:
        bad = [k for k in eff if kept['prms'].get(k, '<missing>') != eff[k]] + [k for k in kept['prms'] if k not in eff]
        oracles.V(viol, 'C12', 'per-call values must override exactly the keys named (chunk parameters != defaults + named keys)',
                  keys=bad[:6], prms=p)
    if dynamic.AMPYCLOUD_PRMS != defaults:
        oracles.V(viol, 'C12', 'a per-call run changed the global parameters')
    # (2) in-place edits of the global; (2b) the same after another chunk was processed under the same global -
    # one in which the instruments of the exclusion list do not report
    other = scenes.frame(scenes.close_chain_scene(scenes.rng_for(desc['s'], NUM, desc['i'], 5), nl=3, nce=1))
    other['ceilo'] = pd.array(['somewhere-else'] * len(other), dtype=pd.StringDtype())

    def r2():
        nested_edit(dynamic.AMPYCLOUD_PRMS, p)
        return ampycloud.run(df)
    run_route('global_edit', r2)

    def r2b():
        nested_edit(dynamic.AMPYCLOUD_PRMS, p)
        try:
            ampycloud.run(other)
        except Exception:      # noqa - decided by C08
            pass
        return ampycloud.run(df)
    run_route('global_edit_after_another_chunk', r2b)
    tags.add('global_route_with_history')
    # (3) YAML + set_prms
    def r3():
        with tempfile.TemporaryDirectory(prefix='c12_') as td:
            pth = os.path.join(td, 'prms.yml')
            with open(pth, 'w', encoding='utf-8') as fh:
                YAML(typ='safe').dump(p, fh)
            ampycloud.set_prms(pth)
        if dynamic.AMPYCLOUD_PRMS != eff:
            bad = [k for k in eff if dynamic.AMPYCLOUD_PRMS.get(k) != eff[k]]
            oracles.V(viol, 'C12', 'global after set_prms != defaults overridden by the named keys', keys=bad[:5], prms=p)
        return ampycloud.run(df)
    run_route('yaml', r3)
    tags.add('yaml_route')
    # (1b) per call, nested sections given as dict subclasses (OrderedDict / ruamel CommentedMap)
    import collections
    from ruamel.yaml.comments import CommentedMap

    def as_sub(d, cls):
        out = cls()
        for k, v in d.items():
            out[k] = as_sub(v, cls) if isinstance(v, dict) else copy.deepcopy(v)
        return out
    cls = collections.OrderedDict if desc['i'] % 2 else CommentedMap
    run_route('per_call_dict_subclass', lambda: ampycloud.run(df, prms=as_sub(p, cls)))
    tags.add('dict_subclass_sections')
    # (4) every leaf per call, poisoned global
    def r4():
        poison(dynamic.AMPYCLOUD_PRMS)
        return ampycloud.run(df, prms=copy.deepcopy(eff))
    run_route('all_leaves_poisoned_global', r4)
    tags.add('poisoned_global')
    ampycloud.reset_prms()
    res['evals'] = 1
    names = list(outs)
    for n in names[1:]:
        d = obs.first_diff(outs[names[0]], outs[n])
        if d is not None:
            oracles.V(viol, 'C12', 'routes give different results', route_a=names[0], route_b=n,
                      first_difference=list(d), prms=p)
    if all('exception' not in o for o in outs.values()):
        tags.add('routes_4')
    if 'nested_override' in tags:
        res['nontrivial'].append(obs.case_hash(sc['rows'], p))
    # unknown keys: exactly one warning each, no key added, result unchanged
    if desc['i'] % 2 == 0:
        q = copy.deepcopy(p)
        unknown = [('NOT_A_PRM',), ('LOWESS', 'bogus'), ('LAYERING_PRMS', 'gmm_kwargs', 'nope')][: 1 + desc['i'] % 3]
        for path in unknown:
            dd = q
            for k in path[:-1]:
                dd = dd.setdefault(k, {})
            dd[path[-1]] = {'x': 1} if len(path) == 1 else 5
        if desc['i'] % 4 == 0:
            # the unknown entries come FIRST at their level (the order of the keys must not matter)
            def front(d, ref):
                ks = [k for k in d if not (isinstance(ref, dict) and k in ref)] + [k for k in d if isinstance(ref, dict) and k in ref]
                return {k: (front(d[k], ref.get(k)) if isinstance(d[k], dict) and isinstance(ref, dict) and isinstance(ref.get(k), dict) else d[k]) for k in ks}
            q = front(q, defaults)
            tags.add('unknown_keys_listed_first')
        ampycloud.reset_prms()
        with warnings.catch_warnings(record=True) as wl:
            warnings.simplefilter('always')
            try:
                ch = ampycloud.run(df, prms=q)
                o = obs.observe(ch)
                keys_ok = sorted(k for k, _ in leaves(ch.prms)) == sorted(k for k, _ in leaves(defaults))
            except Exception as e:      # noqa
                o, keys_ok = {'exception': twin.exc_info(e)}, True
        res['counters']['runs'] += 1
        nwarn = [str(w.message) for w in wl if issubclass(w.category, AmpycloudWarning) and 'unknown' in str(w.message).lower()]
        tags.add('unknown_key_warning')
        if len(nwarn) != len(unknown):
            oracles.V(viol, 'C12', 'unknown keys must raise exactly one AmpycloudWarning each', unknown=[list(u) for u in unknown],
                      warnings=nwarn[:5])
        if not keys_ok:
            oracles.V(viol, 'C12', 'unknown keys were added to the chunk parameters', unknown=[list(u) for u in unknown])
        if dynamic.AMPYCLOUD_PRMS != defaults:
            oracles.V(viol, 'C12', 'unknown per-call keys changed the global parameters')
        d = obs.first_diff(outs['per_call'], o)
        if d is not None:
            oracles.V(viol, 'C12', 'unknown keys change the result', first_difference=list(d))
    ampycloud.reset_prms()
    res['tags'] = sorted(tags)
    res['case'] = {'scene': sc, 'prm': {'call': p, 'glob': {}}}
    if desc['i'] % 23 == 0 and 'exception' not in outs['per_call']:
        res['sample'] = pipeline.small_sample({'scene': sc, 'prm': {'call': p, 'glob': {}}},
                                              {'routes': names, 'msg': outs['per_call']['msgs']['layers']})
    return res


NESTED_EDITS = [(('LOWESS', 'frac'), 0.9), (('MIN_SEP_VALS', 0), 3000), (('SLICING_PRMS', 'height_scale_kwargs', 'min_range'), 7.0),
                (('GROUPING_PRMS', 'height_scale_range', 1), 999), (('LAYERING_PRMS', 'gmm_kwargs', 'scores'), 'AIC'),
                (('MSA',), 1234.0), (('MAX_HOLES_OKTA8',), 4), (('EXCLUDE_FOR_BASE_HEIGHT_CALC',), ['x']), (('MPL_STYLE',), 'latex'),
                (('MIN_SEP_LIMS', 0), 5555), (('MSA_HIT_BUFFER',), 10), (('MAX_HITS_OKTA0',), 9), (('BASE_LVL_HEIGHT_PERC',), 50),
                (('BASE_LVL_LOOKBACK_PERC',), 30)]


def check_reset(desc):
    import ampycloud
    from ampycloud import dynamic
    from ampycloud.errors import AmpycloudError
    from .c11 import setp
    viol, tags = [], set()
    defaults = obs.defaults()
    names = list(defaults.keys())
    rng = scenes.rng_for(desc['s'], NUM, desc['i'])
    n = 0
    for j in range(desc['n']):
        idx = desc['lo'] + j
        if desc['all']:
            S = [names[b] for b in range(len(names)) if idx >> b & 1]
        else:
            S = [nm for nm in names if rng.uniform() < rng.choice([0.1, 0.5, 0.9])]
        ampycloud.reset_prms()
        if dynamic.AMPYCLOUD_PRMS != defaults:
            oracles.V(viol, 'C12', 'reset_prms() does not restore the packaged defaults', keys=[k for k in defaults if dynamic.AMPYCLOUD_PRMS.get(k) != defaults[k]][:5])
            break
        for path, val in NESTED_EDITS:
            setp(dynamic.AMPYCLOUD_PRMS, path, copy.deepcopy(val))
        edited = copy.deepcopy(dynamic.AMPYCLOUD_PRMS)
        arg = S if len(S) != 1 or j % 2 else S[0]       # a single name may be given as a plain str
        if (len(S) == 0 and j % 2) or (not desc['all'] and j % 10 == 0):
            arg = None                                   # reset_prms() without argument = everything
        ampycloud.reset_prms(arg)
        n += 1
        exp = copy.deepcopy(edited)
        for nm in (names if arg is None else S):
            exp[nm] = copy.deepcopy(defaults[nm])
        tags.add('reset_all_after_nested_edit' if arg is None or len(S) == len(names) else 'reset_subset_after_nested_edit')
        if dynamic.AMPYCLOUD_PRMS != exp:
            bad = [k for k in exp if dynamic.AMPYCLOUD_PRMS.get(k, '<missing>') != exp[k]]
            oracles.V(viol, 'C12', 'reset_prms(names) must restore exactly the named parameters', names=S, wrong_keys=bad[:6])
        # a second nested edit after the reset must not reach the defaults used by the next reset
        setp(dynamic.AMPYCLOUD_PRMS, ('LOWESS', 'it'), 0)
        ampycloud.reset_prms()
        if dynamic.AMPYCLOUD_PRMS != defaults:
            oracles.V(viol, 'C12', 'reset_prms() after nested in-place edits does not restore the packaged defaults',
                      keys=[k for k in defaults if dynamic.AMPYCLOUD_PRMS.get(k) != defaults[k]][:5])
    try:
        ampycloud.reset_prms(['MSA', 'NOT_A_PRM'])
        oracles.V(viol, 'C12', 'reset_prms accepts an unknown name')
    except AmpycloudError:
        tags.add('reset_unknown_name')
    except Exception as e:      # noqa
        oracles.V(viol, 'C12', 'reset_prms(unknown name) raises another exception type', exc=type(e).__name__)
    ampycloud.reset_prms()
    return {'evals': n, 'nontrivial_n': n if desc['all'] else 0,
            'nontrivial': [] if desc['all'] else [obs.case_hash('reset', desc['i'], j) for j in range(n)],
            'tags': sorted(tags), 'viol': viol[:10], 'counters': {'resets': n},
            'sample': {'workload': 'reset_prms(subset) after nested in-place edits', 'n_subsets': n} if desc['i'] % 7 == 0 else None}


def check(desc):
    return check_routes(desc) if desc['fam'] == 'routes' else check_reset(desc)
