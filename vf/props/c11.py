"""C11 - Running never modifies caller data, caller parameters or the global parameters."""
import copy
import warnings
import numpy as np
import pandas as pd
from .. import scenes, obs, oracles, pipeline

ID, NUM, LEVEL = 'C11', 11, 'exploration'
RULE = ('Evaluation = one ampycloud call (CeiloChunk(...), find_slices/find_groups/find_layers, run, metar_msg) '
        'bracketed by deep snapshots of the the caller frame (values, dtypes, index, columns, attrs), of the '
        'the caller nested parameter dict and of dynamic.AMPYCLOUD_PRMS, inside random histories of {construct with '
        'per-call prms, run a stage of some chunk, edit a global leaf / nested value / list element in place, edit '
        'a leaf of some chunk snapshot, set_prms(YAML file), reset_prms}. A reference model keeps its own deep copies: after every '
        'operation each chunk prms must equal the model snapshot taken at its construction (plus the edits made '
        'to that snapshot), the global must equal the model global, no mutable object reachable from chunk.prms '
        'may be (by identity) reachable from the global, and the finished chunk must give the digest of an '
        'isolated run with its snapshot as full per-call parameters. Workload: per-call dicts naming any subset of '
        'keys at any depth incl. unknown keys; frames with extra columns, odd dtypes, odd index, the data of a '
        'previous chunk. Non-trivial = the call received nested per-call prms or followed an edit; distinct = '
        'hash of (history, rows).')
ASSUMPTIONS = ['aliasing between chunk.prms and the the caller own dict (lists are assigned by reference) is not claimed by the property and not checked']
REQUIRED = ['global_nested_edit_after_construction', 'global_list_element_edit', 'snapshot_edit', 'snapshot_list_element_edit',
            'unknown_keys', 'reset_between', 'frame_extra_columns_right_dtypes', 'frame_wrong_dtypes', 'frame_from_previous_chunk',
            'final_digest_checked', 'prms_none', 'numpy_valued_prms', 'set_prms_between', 'complete_section_reversed_range', 'exclusion_given_as_bare_str']
SIZES = {'quick': 260, 'thorough': 5000}

GLOBAL_EDITS = [
    (('LOWESS', 'frac'), [0.9, 0.2]), (('LOWESS', 'it'), [0, 5]), (('MIN_SEP_VALS', 0), [3000, 120]),
    (('MIN_SEP_VALS', 1), [2500, 600]), (('MSA',), [5000.0, None, 900.0]), (('MAX_HITS_OKTA0',), [0, 7]),
    (('SLICING_PRMS', 'distance_threshold'), [0.05, 0.4]), (('SLICING_PRMS', 'height_scale_kwargs', 'min_range'), [10.0, 4000.0]),
    (('GROUPING_PRMS', 'height_scale_range', 1), [900, 1500]), (('GROUPING_PRMS', 'height_pad_perc'), [0, 60]),
    (('LAYERING_PRMS', 'gmm_kwargs', 'delta_mul_gain'), [0.5, 1.0]), (('LAYERING_PRMS', 'min_okta_to_split'), [0, 6]),
    (('BASE_LVL_HEIGHT_PERC',), [50, 0]), (('BASE_LVL_LOOKBACK_PERC',), [50, 20]),
    (('EXCLUDE_FOR_BASE_HEIGHT_CALC',), [['zz']]),
]


def plan(tier, seed):
    return [{'s': seed, 'i': i} for i in range(SIZES[tier])]


def getp(d, path):
    for k in path:
        d = d[k]
    return d


def setp(d, path, val):
    for k in path[:-1]:
        d = d[k]
    d[path[-1]] = val


def mutable_ids(x, acc=None):
    acc = {} if acc is None else acc
    if isinstance(x, (dict, list)):
        acc[id(x)] = x
        for v in (x.values() if isinstance(x, dict) else x):
            mutable_ids(v, acc)
    return acc


def model_merge(ref, new):
    """Reference semantics of the per-call override (unknown keys ignored, dicts merged, others replaced)."""
    for k, v in new.items():
        if k not in ref:
            continue
        if isinstance(v, dict):
            if isinstance(ref[k], dict):
                model_merge(ref[k], v)
        else:
            ref[k] = copy.deepcopy(v)


def percall(rng, sc, tags):
    u = rng.uniform()
    if u < 0.12:
        tags.add('prms_none')
        return None
    p = scenes.gen_prms(rng, sc, scaling=False, rich=True)['call']
    p.pop('SLICING_PRMS', None) if rng.uniform() < 0.5 else None
    if rng.uniform() < 0.5:
        tags.add('unknown_keys')
        p['NOT_A_PRM'] = {'a': [1, 2]}
        p.setdefault('LOWESS', {})['bogus'] = 3
        if rng.uniform() < 0.5:
            p.setdefault('LAYERING_PRMS', {}).setdefault('gmm_kwargs', {})['nope'] = None
    if rng.uniform() < 0.3:
        # a complete sub-section, its range given as [max, min] (only min / max of it are ever used)
        tags.add('complete_section_reversed_range')
        p['GROUPING_PRMS'] = {'height_pad_perc': float(rng.choice([10, 40])), 'dt_scale': float(rng.choice([180, 90])),
                              'height_scale_range': [float(rng.choice([500, 900])), float(rng.choice([100, 50]))]}
    if rng.uniform() < 0.25:
        # the exclusion given as a bare string (the form the package's own tests use)
        tags.add('exclusion_given_as_bare_str')
        p['EXCLUDE_FOR_BASE_HEIGHT_CALC'] = str(sc['names'][int(rng.integers(len(sc['names'])))])
    if rng.uniform() < 0.3:
        p['MSA'] = None
    elif rng.uniform() < 0.25:
        # numpy values given by the caller (0-d arrays are mutable objects owned by the caller)
        tags.add('numpy_valued_prms')
        p['MSA'] = np.array(float(rng.choice([2500.0, 4000.0, 12000.0]))) if rng.uniform() < 0.6 else np.float64(3000.0)
        p['MSA_HIT_BUFFER'] = np.array(500.0) if rng.uniform() < 0.5 else 500.0
    return p


def caller_frame(rng, sc, prev_chunk, tags, force=None):
    df = scenes.frame(sc)
    k = int(rng.integers(7)) if force is None else force
    if k == 0:
        df['station'] = 'LSZH'
        df['q'] = np.arange(len(df)) * 0.5
        tags.add('frame_extra_columns_right_dtypes')
    elif k == 1:
        df['type'] = df['type'].astype(float)
        df['ceilo'] = df['ceilo'].astype(object)
        tags.add('frame_wrong_dtypes')
    elif k == 2:
        df['extra'] = 1
        df['type'] = df['type'].astype(np.int8)
        tags.add('frame_wrong_dtypes')
    elif k == 3:
        df.index = pd.Index(rng.permutation(len(df)) + 100)
        df.attrs['source'] = {'k': [1, 2, 3]}
    elif k == 4 and prev_chunk is not None:
        df = prev_chunk.data           # the live frame of a processed chunk (carries the id columns)
        tags.add('frame_from_previous_chunk')
        tags.add('frame_extra_columns_right_dtypes')
    return df


def check(desc):
    import ampycloud
    from ampycloud import dynamic
    from ampycloud.data import CeiloChunk
    rng = scenes.rng_for(desc['s'], NUM, desc['i'])
    viol, tags = [], set()
    evals = 0
    nontriv = []
    ampycloud.reset_prms()
    model_glob = obs.defaults()
    chunks = []       # dicts: chunk, model (snapshot), stage (0..3), frame, frame_snap, call, call_snap, sc
    hist = []
    prev_done = None
    dirty = False     # an edit happened since the last call

    def invariants(where):
        nonlocal evals
        if dynamic.AMPYCLOUD_PRMS != model_glob:
            bad = [k for k in model_glob if dynamic.AMPYCLOUD_PRMS.get(k, '<missing>') != model_glob[k]] + \
                  [k for k in dynamic.AMPYCLOUD_PRMS if k not in model_glob]
            oracles.V(viol, 'C11', 'global parameters differ from the reference model', after=where, keys=bad[:5],
                      history=hist[-8:])
            return False
        gids = mutable_ids(dynamic.AMPYCLOUD_PRMS)
        for j, c in enumerate(chunks):
            if c['chunk'].prms != c['model']:
                bad = [k for k in c['model'] if c['chunk'].prms.get(k, '<missing>') != c['model'][k]]
                oracles.V(viol, 'C11', 'chunk parameters are not the private snapshot taken at construction',
                          after=where, chunk=j, keys=bad[:5], history=hist[-8:])
                return False
            shared = [k for k in mutable_ids(c['chunk'].prms) if k in gids]
            if shared:
                oracles.V(viol, 'C11', 'chunk parameters share a mutable object with the global parameters',
                          after=where, chunk=j, n_shared=len(shared), history=hist[-8:])
                return False
            if obs.frame_snapshot(c['frame']) != c['frame_snap'] and c['frame'] is not getattr(c.get('frame_owner'), 'data', None):
                oracles.V(viol, 'C11', "caller's DataFrame modified", after=where, chunk=j, history=hist[-8:])
                return False
            if c['call'] != c['call_snap']:
                oracles.V(viol, 'C11', "caller's parameter dictionary modified", after=where, chunk=j, history=hist[-8:])
                return False
        return True

    nops = int(rng.integers(6, 13))
    ok = True
    forced = False
    if desc['i'] % 3 == 0:
        # deterministic prologue: one chunk processed to the end, whose live data frame is then fed back
        sc0 = scenes.gen_scene(rng, maxrows=80, nce=2)
        try:
            with warnings.catch_warnings():
                warnings.simplefilter('ignore')
                prev_done = ampycloud.run(scenes.frame(sc0))
                if scenes.empties_chunk({'rows': scenes.rows_of(prev_done.data)}, model_glob):
                    prev_done = None
        except Exception:      # noqa - decided by C08
            prev_done = None
    with warnings.catch_warnings():
        warnings.simplefilter('ignore')
        for step in range(nops):
            choice = rng.uniform()
            if not chunks or choice < 0.25:
                sc = scenes.gen_scene(rng, maxrows=150, nce=int(rng.choice([1, 2, 3])))
                call = percall(rng, sc, tags)
                frame = caller_frame(rng, sc, prev_done, tags,
                                     force=4 if (prev_done is not None and desc['i'] % 3 == 0 and not forced) else None)
                forced = forced or prev_done is not None
                owner = prev_done if frame is getattr(prev_done, 'data', None) else None
                eff = copy.deepcopy(model_glob)
                if call is not None:
                    model_merge(eff, call)
                if scenes.empties_chunk({'rows': scenes.rows_of(frame)}, eff):
                    continue
                snap_f = obs.frame_snapshot(frame)
                call_arg = copy.deepcopy(call)
                try:
                    ch = CeiloChunk(frame, prms=call_arg)
                except Exception as e:      # noqa - decided by C08
                    tags.add('crashed:' + type(e).__name__)
                    continue
                chunks.append({'chunk': ch, 'model': eff, 'stage': 0, 'frame': frame, 'frame_snap': snap_f,
                               'call': call_arg, 'call_snap': copy.deepcopy(call), 'sc': sc, 'frame_owner': owner})
                hist.append('construct#%d(prms=%s)' % (len(chunks) - 1, sorted(call) if call else None))
                evals += 1
                if call and any(isinstance(v, dict) for v in call.values()) or dirty:
                    nontriv.append(obs.case_hash(desc['i'], step))
                dirty = False
            elif choice < 0.6:
                j = int(rng.integers(len(chunks)))
                c = chunks[j]
                if c['stage'] < 3:
                    try:
                        getattr(c['chunk'], 'find_' + obs.WHICH[c['stage']])()
                    except Exception as e:      # noqa
                        tags.add('crashed:' + type(e).__name__)
                        ok = False
                        break
                    c['stage'] += 1
                    hist.append('find_%s#%d' % (obs.WHICH[c['stage'] - 1], j))
                else:
                    c['chunk'].metar_msg()
                    hist.append('metar_msg#%d' % j)
                    prev_done = c['chunk']
                evals += 1
                if dirty:
                    nontriv.append(obs.case_hash(desc['i'], step))
                dirty = False
            elif choice < 0.8:
                path, vals = GLOBAL_EDITS[int(rng.integers(len(GLOBAL_EDITS)))]
                val = copy.deepcopy(vals[int(rng.integers(len(vals)))])
                setp(dynamic.AMPYCLOUD_PRMS, path, val)
                setp(model_glob, path, copy.deepcopy(val))
                hist.append('global%s=%r' % (list(path), val))
                dirty = True
                if len(path) > 1 and chunks:
                    tags.add('global_nested_edit_after_construction')
                if isinstance(path[-1], int) and chunks:
                    tags.add('global_list_element_edit')
            elif choice < 0.93:
                j = int(rng.integers(len(chunks)))
                path, vals = GLOBAL_EDITS[int(rng.integers(len(GLOBAL_EDITS) - 1))]
                if path[0] in ('MSA', 'MSA_HIT_BUFFER', 'MAX_HITS_OKTA0') or (path[0] in ('SLICING_PRMS',) and chunks[j]['stage'] > 0):
                    continue      # parameters consumed at construction: editing them later is meaningless
                try:
                    cur = getp(chunks[j]['chunk'].prms, path)
                except (KeyError, IndexError, TypeError):
                    continue
                val = copy.deepcopy(vals[int(rng.integers(len(vals)))])
                setp(chunks[j]['chunk'].prms, path, val)
                setp(chunks[j]['model'], path, copy.deepcopy(val))
                # the caller's own dict may legitimately alias lists of the snapshot (not claimed): refresh
                chunks[j]['call_snap'] = copy.deepcopy(chunks[j]['call'])
                if chunks[j]['stage'] > 0:
                    chunks[j]['late_edit'] = True     # earlier stages already used the old value
                hist.append('snapshot#%d%s=%r' % (j, list(path), val))
                tags.add('snapshot_edit')
                if isinstance(path[-1], int):
                    tags.add('snapshot_list_element_edit')
                dirty = True
            elif choice < 0.965:
                # parameters set from a YAML file (merged into the global dictionary)
                import os
                import tempfile
                from ruamel.yaml import YAML
                y = {'MIN_SEP_VALS': [float(rng.choice([200, 300])), float(rng.choice([900, 1100]))],
                     'EXCLUDE_FOR_BASE_HEIGHT_CALC': [['zz'], []][int(rng.integers(2))],
                     'GROUPING_PRMS': {'height_scale_range': [float(rng.choice([80, 120])), float(rng.choice([400, 600]))]},
                     'LOWESS': {'frac': float(rng.choice([0.3, 0.5]))}}
                with tempfile.TemporaryDirectory(prefix='c11_') as td:
                    pth = os.path.join(td, 'prms.yml')
                    with open(pth, 'w', encoding='utf-8') as fh:
                        YAML(typ='safe').dump(y, fh)
                    ampycloud.set_prms(pth)
                model_merge(model_glob, y)
                hist.append('set_prms(yaml: %s)' % sorted(y))
                tags.add('set_prms_between')
                dirty = True
            else:
                ampycloud.reset_prms()
                model_glob = obs.defaults()
                hist.append('reset_prms()')
                tags.add('reset_between')
                dirty = True
            if not invariants(hist[-1] if hist else 'start'):
                ok = False
                break
        # finish every chunk and compare with an isolated run on its snapshot
        if ok:
            for j, c in enumerate(chunks):
                try:
                    while c['stage'] < 3:
                        getattr(c['chunk'], 'find_' + obs.WHICH[c['stage']])()
                        c['stage'] += 1
                    got = obs.observe(c['chunk'])
                except Exception as e:      # noqa
                    tags.add('crashed:' + type(e).__name__)
                    continue
                if not invariants('finishing chunk %d' % j):
                    break
        ampycloud.reset_prms()
        if ok and not viol:
            for j, c in enumerate(chunks):
                # isolated reference: fresh process state (defaults), the snapshot given as full per-call dict
                full = copy.deepcopy(c['model'])
                if full['SLICING_PRMS']['height_scale_mode'] != 'minmax-scale':
                    continue
                try:
                    ref = ampycloud.run(scenes.frame(c['sc']) if c['frame_owner'] is None else c['frame'], prms=full)
                    got = obs.observe(c['chunk'])
                    exp = obs.observe(ref)
                except Exception as e:      # noqa
                    tags.add('crashed:' + type(e).__name__)
                    continue
                if c['frame_owner'] is not None or c.get('late_edit'):
                    continue
                d = obs.first_diff(exp, got)
                tags.add('final_digest_checked')
                evals += 1
                if d is not None:
                    oracles.V(viol, 'C11', 'chunk result is not the one predicted from its construction-time snapshot',
                              chunk=j, first_difference=list(d), history=hist[-10:])
        ampycloud.reset_prms()
    return {'evals': evals, 'nontrivial': nontriv, 'tags': sorted(tags), 'viol': viol[:10],
            'counters': {'histories': 1, 'operations': len(hist), 'chunks': len(chunks)},
            'sample': {'history': hist[:12]} if desc['i'] % 41 == 0 else None}
