"""C08 - Valid input never crashes the chain; failures are AmpycloudError only."""
import copy
import time
import warnings
import numpy as np
import pandas as pd
from .. import scenes, obs, pipeline, oracles

ID, NUM, LEVEL = 'C08', 8, 'exploration'
RULE = ('Evaluation = one run() + three metar_msg() calls on a frame that satisfies the documented input format '
        '(incl. the warn-only anomalies) with a parameter set whose leaves keep their documented meaning, under a '
        'CPU-time watchdog (120 CPU-s per case, never wall-clock): any exception, a non-CeiloChunk / non-str '
        'result or a watchdog hit is a violation; plus refusal inputs (missing column, duplicated rows, '
        'coincident type 0/non-0 and VV/non-VV, empty frame, non-DataFrame, stage calls out of order, '
        'MIN_SEP_VALS/LIMS of inconsistent lengths) which must raise AmpycloudError and nothing else. Workload: '
        'the widest generator configuration (1-8 ceilometers, 1-1200 rows, spans 0.5 s - 1 day, heights 0-1e5, '
        'types > 3, VV, type-0 with height, type-1 with NaN, missing lower types, sub-second / offset / positive '
        'time axes, all degenerate families, thick bi/tri-modal groups, chains of close layers, non-unique index '
        'labels, superfluous columns holding lists/dicts/arrays/timestamps) x the full parameter generator (all three scaling modes, thresholds down to 0.004, LOWESS it=0, '
        'rescale_0_to_x None, 1-3 separation bins, exclusion lists, MSA anywhere; a third of the cases with legal corner values: look-back 0.001 %, percentiles 0/100, LOWESS frac 1e-6..1, buffers 0/1e5, equal height_scale_range bounds, separations 1e-6..1e5, delta_mul_gain 1e-6..10, rescale 1e-3/1e6). Scenes sliced by time whose slices hold the 1-3 rows of one time step (same height reported under several hit types, coincident instruments); the optional run() arguments geoloc (any str, incl. format directives) and ref_dt (str, naive and aware datetime / Timestamp) with logging at DEBUG. Distinct = hash of (rows, '
        'parameters); every case counts as non-trivial except the single-row ones.')
ASSUMPTIONS = ['BLAS/OpenMP threads fixed to 1', 'settings that shatter > 150 hits into hundreds of slices are not '
               'generated: the grouping step is quadratic in the number of slices (slow, not divergent)']
REQUIRED = ['fam:timesliced', 'fam:run_args', 'ref_dt:datetime:aware', 'ref_dt:Timestamp:aware', 'single_slice_bundle_of_one_repeated_hit', 'fam:extreme_axes', 'fam:extreme_clustering', 'debug_logging', 'fam:ulp_dt', 'range_index', 'fam:gmm_direct', 'extra_object_columns', 'extreme_parameters', 'fam:generic', 'fam:degenerate', 'fam:bimodal', 'fam:chain', 'fam:empty_after_crop', 'scaling:minmax-scale',
            'scaling:shift-and-scale', 'scaling:step-scale', 'anomalies', 'refusal:missing_column',
            'refusal:duplicates', 'refusal:type0_coincident', 'refusal:vv_coincident', 'refusal:empty',
            'refusal:not_a_frame', 'refusal:call_order', 'refusal:min_sep_lengths'] + \
           ['degenerate:' + k for k in scenes.DEGENERATE_KINDS]
SIZES = {'quick': dict(generic=1300, eng=200), 'thorough': dict(generic=40000, eng=6000)}
CPU_LIMIT = 120.0
REFUSALS = ['missing_column', 'duplicates', 'type0_coincident', 'vv_coincident', 'empty', 'not_a_frame',
            'call_order', 'min_sep_lengths']


def plan(tier, seed):
    z = SIZES[tier]
    out = []
    for i in range(z['generic']):
        out.append({'fam': 'generic', 's': seed, 'p': NUM, 'i': i, 'allow_empty': True,
                    'k': {'big': i % 5 == 0, 'anom': i % 2 == 0, 'index': ['concat', 'sorted_repeats', 'range_offset', 'range_desc', 'checked_concat'][(i // 5) % 5] if i % 5 == 3 else None,
                          'extreme': i % 3 == 1, 'extra': 'objects' if i % 7 == 2 else None, 'maxrows': 3000 if (tier == 'thorough' and i % 50 == 0) else 1200}})
    for i in range(z['eng']):
        fam = ['bimodal', 'chain', 'tiecut', 'bimodal'][i % 4]
        out.append({'fam': fam, 's': seed, 'p': NUM, 'i': 100000 + i,
                    'k': {'nce': 1 + i % 3, 'exclude': 'rand', 'third': i % 3 == 0, 'coincident': i % 2 == 0}})
    nref = 17 * (2 if tier == 'quick' else 24)
    for i in range(nref):        # real-world reference scenes of the repository (perturbed), random parameters
        out.append({'fam': 'refdata', 's': seed, 'p': NUM, 'i': 700000 + i,
                    'k': {'file': i % 17, 'perturb': (i // 17) % 5, 'default_prms': i < 17}})
    reps = 2 if tier == 'quick' else 40
    for i, kind in enumerate(scenes.DEGENERATE_KINDS * reps):
        out.append({'fam': 'degenerate', 's': seed, 'p': NUM, 'i': 200000 + i, 'k': {'kind': kind, 'rich': True}})
    for i in range(6 if tier == 'quick' else 60):
        out.append({'fam': 'empty_after_crop', 's': seed, 'p': NUM, 'i': 300000 + i})
    for i in range(48 if tier == 'quick' else 2400):       # legal extremes of the time / height axes and of the clustering settings
        out.append({'fam': 'extreme_axes' if i % 2 else 'extreme_clustering', 's': seed, 'p': NUM, 'i': 700000 + i})
    for i in range(24 if tier == 'quick' else 600):        # time stamps of one instrument one ulp apart, full layer
        out.append({'fam': 'ulp_dt', 's': seed, 'p': NUM, 'i': 600000 + i})
    for i in range(12 if tier == 'quick' else 200):        # 500 direct calls of the layering helper each
        out.append({'fam': 'gmm_direct', 's': seed, 'p': NUM, 'i': 500000 + i, 'n': 500})
    for i in range(60 if tier == 'quick' else 2000):        # slices made of the 1-3 rows of one time step
        out.append({'fam': 'timesliced', 's': seed, 'p': NUM, 'i': 800000 + i})
    for i in range(len(RUN_ARGS) * (1 if tier == 'quick' else 10)):   # the optional arguments of run()
        out.append({'fam': 'run_args', 's': seed, 'p': NUM, 'i': 900000 + i})
    for i in range(len(REFUSALS) * (3 if tier == 'quick' else 40)):
        out.append({'fam': 'refusal', 'kind': REFUSALS[i % len(REFUSALS)], 's': seed, 'p': NUM, 'i': 400000 + i})
    return out


def _run_args():
    from datetime import datetime, timezone, timedelta
    refs = [None, '2026-01-01 00:00:00', '', 'whenever', datetime.now(), datetime.now(timezone.utc),
            datetime(2020, 2, 29, 23, 59, 59, tzinfo=timezone(timedelta(hours=5, minutes=30))), datetime.min, datetime.max,
            pd.Timestamp.now(), pd.Timestamp.now(tz='UTC'), pd.Timestamp('2024-03-31 02:30:00+02:00')]
    geos = [None, 'Payerne', '', 'Z\u00fcrich \u2708', 'x' * 300, 'two\nlines', '%s %d {} {0!r} %(name)s', 'Mock data']
    return [(r, geos[(j * 3 + j // len(geos)) % len(geos)]) for j, r in enumerate(refs * 2)]


RUN_ARGS = list(range(24))


def check_run_args(desc):
    """The optional, documented arguments of run(): geoloc (any str) and ref_dt (str or datetime, naive or aware)."""
    import ampycloud
    from ampycloud.data import CeiloChunk
    from .. import env as _env
    import contextlib
    rng = scenes.rng_for(desc['s'], NUM, desc['i'])
    sc = scenes.gen_scene(rng, nce=2, maxrows=150)
    df = scenes.frame(sc)
    ref_dt, geoloc = _run_args()[desc['i'] % len(RUN_ARGS)]
    viol = []
    dbg = desc['i'] % 2 == 0
    with warnings.catch_warnings(), (_env.debug_logging() if dbg else contextlib.nullcontext()):
        warnings.simplefilter('ignore')
        try:
            ch = ampycloud.run(df, prms={'MSA': None}, geoloc=geoloc, ref_dt=ref_dt)
            msg = ch.metar_msg()
            if not isinstance(ch, CeiloChunk) or not isinstance(msg, str):
                oracles.V(viol, 'C08', 'run() did not return a CeiloChunk', got=type(ch).__name__)
            if ch.geoloc != geoloc or ch.ref_dt != (ref_dt if ref_dt is None or isinstance(ref_dt, str) else str(ref_dt)):
                oracles.V(viol, 'C08', 'geoloc / ref_dt not kept as given', geoloc=repr(ch.geoloc)[:80], ref_dt=repr(ch.ref_dt)[:80])
            if desc['i'] % 6 == 0:
                m2 = ampycloud.metar(df)
                if not isinstance(m2, str):
                    oracles.V(viol, 'C08', 'metar_msg() did not return a str', which='ampycloud.metar', got=repr(m2)[:60])
        except Exception as e:       # noqa
            oracles.V(viol, 'C08', 'exception on valid input', exc=type(e).__name__, msg=str(e)[:200], empties_chunk=False,
                      where='run(geoloc=%r, ref_dt=%r)' % (geoloc if geoloc is None else geoloc[:30], ref_dt), family='run_args')
        finally:
            ampycloud.reset_prms()
    tags = ['fam:run_args', 'ref_dt:' + type(ref_dt).__name__ + (':aware' if getattr(ref_dt, 'tzinfo', None) is not None else '')]
    return {'evals': 1, 'nontrivial': [obs.case_hash('run_args', desc['i'], sc['rows'])], 'tags': tags, 'viol': viol,
            'counters': {'runs': 1}, 'sample': {'workload': 'run() optional arguments', 'ref_dt': repr(ref_dt), 'geoloc': repr(geoloc)[:40]} if desc['i'] % 8 == 0 else None}


def empty_after_crop_case(desc):
    """Known finding D8: only type >= 2 hits, all above MSA+buffer ('missing lower types' anomaly)."""
    rng = scenes.rng_for(desc['s'], NUM, desc['i'])
    n = int(rng.integers(1, 30))
    rows = [['a', -float(t) * 15, float(6000 + rng.uniform(0, 500)), int(rng.integers(2, 4))] for t in range(n)]
    sc = {'rows': scenes.dedupe(rows), 'names': ['a'], 'order': 'asc', 'fam': 'empty_after_crop'}
    return {'scene': sc, 'prm': {'call': {'MSA': 3000.0, 'MSA_HIT_BUFFER': float(rng.choice([0, 1500]))}, 'glob': {}}}


def check_refusal(desc):
    import ampycloud
    from ampycloud.errors import AmpycloudError
    from ampycloud.data import CeiloChunk
    rng = scenes.rng_for(desc['s'], NUM, desc['i'])
    sc = scenes.gen_scene(rng, nce=2, maxrows=200)
    df = scenes.frame(sc)
    kind = desc['kind']
    prm = None
    call = lambda: ampycloud.run(arg, prms=prm)
    if kind == 'missing_column':
        arg = df.drop(columns=[str(rng.choice(['ceilo', 'dt', 'height', 'type']))])
    elif kind == 'duplicates':
        arg = pd.concat([df, df.iloc[[int(rng.integers(len(df)))]]], ignore_index=True)
        if desc['i'] % 2:
            arg['aux'] = [[i] for i in range(len(arg))]           # unhashable cells in a superfluous column
    elif kind == 'type0_coincident':
        r = df.iloc[int(rng.integers(len(df)))]
        extra = pd.DataFrame({'ceilo': pd.array([r['ceilo']], dtype=pd.StringDtype()), 'dt': [r['dt']],
                              'height': [123.0], 'type': [0 if r['type'] != 0 else 1]})
        arg = pd.concat([df, extra], ignore_index=True)
    elif kind == 'vv_coincident':
        r = df.iloc[int(rng.integers(len(df)))]
        extra = pd.DataFrame({'ceilo': pd.array([r['ceilo']], dtype=pd.StringDtype()), 'dt': [r['dt']],
                              'height': [321.0], 'type': [-1 if r['type'] != -1 else 1]})
        arg = pd.concat([df, extra], ignore_index=True)
    elif kind == 'empty':
        arg = df.iloc[0:0]
    elif kind == 'not_a_frame':
        arg = [df.to_numpy(), df.to_dict('list'), None, 'data', df['height']][int(rng.integers(5))]
    elif kind == 'call_order':
        arg = df
        which = int(rng.integers(6))

        def call():
            ch = CeiloChunk(df)
            if which == 0:
                ch.find_groups()
            elif which == 1:
                ch.find_layers()
            elif which == 2:
                ch.metar_msg()
            elif which == 3:
                ch.find_slices(); ch.find_layers()
            elif which == 4:
                ch.metarize('groups')
            else:
                ch.find_slices(); ch.metar_msg('groups')
    elif kind == 'min_sep_lengths':
        arg = scenes.frame(scenes.close_chain_scene(rng))
        prm = {'MIN_SEP_VALS': [250.0, 1000.0, 2000.0], 'MIN_SEP_LIMS': [10000.0]} if rng.uniform() < 0.5 else \
              {'MIN_SEP_VALS': [250.0], 'MIN_SEP_LIMS': [10000.0]}
    viol = []
    with warnings.catch_warnings():
        warnings.simplefilter('ignore')
        try:
            call()
            oracles.V(viol, 'C08', 'refused input accepted silently', kind=kind)
        except AmpycloudError:
            pass
        except Exception as e:       # noqa
            oracles.V(viol, 'C08', 'refusal signalled by another exception type', kind=kind,
                      exc=type(e).__name__, msg=str(e)[:200])
        finally:
            ampycloud.reset_prms()
    return {'evals': 1, 'nontrivial': [obs.case_hash('refusal', kind, desc['i'])], 'tags': ['refusal:' + kind],
            'viol': viol, 'counters': {'refusals': 1},
            'sample': {'workload': 'refusal', 'kind': kind} if desc['i'] % 8 == 0 else None}


def check_gmm_direct(desc):
    """The layering helper called directly on the heights of one thin, coarsely resolved layer (what
    find_layers hands over for such a group), with the default and a few other selection settings."""
    from ampycloud import layer
    viol = []
    n = 0
    nt = []
    with warnings.catch_warnings():
        warnings.simplefilter('ignore')
        for j in range(desc['n']):
            rng = scenes.rng_for(desc['s'], NUM, desc['i'], j)
            vals = scenes.quantised_heights(rng)
            if len(np.unique(vals)) < 2:
                continue
            kw = dict(scores=str(rng.choice(['BIC', 'BIC', 'AIC'])), mode='delta', min_prob=1.0,
                      delta_mul_gain=float(rng.choice([0.95, 1.0])), rescale_0_to_x=100.0)
            ncmax = int(min(len(np.unique(vals)), 3))
            n += 1
            try:
                nc, ids, _ = layer.ncomp_from_gmm(vals.reshape(-1, 1).copy(), ncomp_max=ncmax, min_sep=float(rng.choice([0, 50, 250])),
                                                  layer_base_params={'lookback_perc': 100, 'height_perc': 5}, **kw)
                if len(np.unique(ids)) != nc or len(ids) != len(vals):
                    oracles.V(viol, 'C08', 'layering helper returns a component count that does not match its labels',
                              ncomp=int(nc), labels=len(np.unique(ids)), vals=vals.tolist()[:40], kwargs=kw)
            except Exception as e:      # noqa
                oracles.V(viol, 'C08', 'exception on valid input', exc=type(e).__name__, msg=str(e)[:160], where='ncomp_from_gmm (direct call)',
                          empties_chunk=False, vals=vals.tolist()[:60], kwargs=kw)
            nt.append(obs.case_hash(vals.tolist(), kw))
    return {'evals': n, 'nontrivial': nt, 'tags': ['fam:gmm_direct'], 'viol': viol[:5], 'counters': {'gmm_direct_calls': n},
            'sample': {'workload': 'direct ncomp_from_gmm on quantised heights', 'vals': vals.tolist()[:12]} if desc['i'] % 6 == 0 else None}


def extreme_case(desc):
    """Legal extremes: microsecond or month-long spans, time axes offset by 1e9 s, all hits within a few feet of
    the top / the ground of the range, 12 instruments, up to 2500 rows; clustering thresholds from 1e-6 to 100,
    dt scales from 1e-3 to 1e9, every scaling mode with scales / ranges over nine decades, paddings up to 1e4 %."""
    rng = scenes.rng_for(desc['s'], NUM, desc['i'])
    i = desc['i']
    if desc['fam'] == 'extreme_axes':
        sc = scenes.gen_scene(rng, nce=int(rng.choice([1, 2, 5, 12])), big=True, anomalies=(i % 4 == 1),
                              maxrows=int(rng.choice([50, 400, 2500])))
        mode = (i // 2) % 6
        for r in sc['rows']:
            if mode == 0:
                r[1] = r[1] * 1e-6
            elif mode == 1:
                r[1] = r[1] + 1e9
            elif mode == 2:
                r[1] = r[1] * 1e4
            elif mode == 3 and r[2] == r[2]:
                r[2] = 99999.0 - (99999.0 - r[2]) * 1e-3
            elif mode == 4 and r[2] == r[2]:
                r[2] = r[2] * 1e-3
        sc['rows'] = scenes.dedupe(sc['rows'])
        prm = scenes.gen_prms(rng, sc, extreme=(i % 3 == 0))
    else:
        sc = scenes.gen_scene(rng, nce=int(rng.choice([1, 2, 3])), maxrows=120)
        prm = scenes.gen_prms(rng, sc, rich=False)
        m = str(rng.choice(['minmax-scale', 'shift-and-scale', 'step-scale']))
        sp = {'distance_threshold': float(rng.choice([1e-6, 1e-3, 0.05, 1.0, 100.0])),
              'dt_scale': float(rng.choice([1e-3, 1.0, 100, 1e5, 1e9])), 'height_scale_mode': m}
        if m == 'minmax-scale':
            sp['height_scale_kwargs'] = {'min_range': float(rng.choice([1e-3, 1.0, 1000, 1e6]))}
        elif m == 'shift-and-scale':
            sp['height_scale_kwargs'] = {'scale': float(rng.choice([1e-3, 1.0, 1000, 1e6]))}
        else:
            k = int(rng.integers(0, 4))
            st = sorted(float(x) for x in rng.choice([0.0, 100.0, 3000.0, 8000.0, 50000.0], k, replace=False))
            sp['height_scale_kwargs'] = {'steps': st, 'scales': [float(rng.choice([1e-2, 1, 100, 1e4])) for _ in range(k + 1)]}
        prm['glob']['SLICING_PRMS'] = sp
        prm['call']['GROUPING_PRMS'] = {'height_pad_perc': float(rng.choice([0, 1e-6, 100, 1e4])),
                                        'dt_scale': float(rng.choice([1e-3, 1, 180, 1e9])),
                                        'height_scale_range': [float(rng.choice([1e-6, 1, 100])), float(rng.choice([100, 1e6]))]}
    sc['fam'] = desc['fam']
    if scenes.empties_chunk(sc, obs.effective(prm)):
        prm['call']['MSA'] = None
    return {'scene': sc, 'prm': prm}


def check(desc):
    from ampycloud.errors import AmpycloudError
    from ampycloud.data import CeiloChunk
    if desc['fam'] == 'refusal':
        return check_refusal(desc)
    if desc['fam'] == 'gmm_direct':
        return check_gmm_direct(desc)
    if desc['fam'] == 'run_args':
        return check_run_args(desc)
    if desc['fam'] == 'timesliced':
        rng_ = scenes.rng_for(desc['s'], NUM, desc['i'])
        case = {'scene': scenes.time_sliced_scene(rng_),
                'prm': {'call': {'SLICING_PRMS': {'dt_scale': float(rng_.choice([100.0, 30.0, 1.0])), 'height_scale_kwargs': {'min_range': float(rng_.choice([1e5, 1e6]))}},
                                 'MSA': None}, 'glob': {}}}
    elif desc['fam'] in ('extreme_axes', 'extreme_clustering'):
        case = extreme_case(desc)
    else:
        case = empty_after_crop_case(desc) if desc['fam'] == 'empty_after_crop' else pipeline.materialise(desc)
    t0 = time.process_time()
    if desc['fam'] == 'generic' and desc['i'] % 40 == 7:
        from .. import env as _env
        with _env.debug_logging():                    # the logging level must not matter
            run = pipeline.execute(case, contracts=False)
        dbg = True
    else:
        run = pipeline.execute(case, contracts=False)
        dbg = False
    cpu = time.process_time() - t0
    viol, tags = [], set()
    sc = case['scene']
    empt = scenes.empties_chunk(sc, run.eff)
    if run.exc is not None:
        oracles.V(viol, 'C08', 'exception on valid input', exc=type(run.exc).__name__, msg=str(run.exc)[:200],
                  where=run.loc, empties_chunk=empt, ampycloud_error=isinstance(run.exc, AmpycloudError),
                  family=sc.get('fam'))
    else:
        if not isinstance(run.chunk, CeiloChunk):
            oracles.V(viol, 'C08', 'run() did not return a CeiloChunk', got=type(run.chunk).__name__)
        for w, m in run.msgs.items():
            if not isinstance(m, str):
                oracles.V(viol, 'C08', 'metar_msg() did not return a str', which=w, got=repr(m)[:60])
    if cpu > CPU_LIMIT:
        oracles.V(viol, 'C08', 'CPU-time bound exceeded', cpu_s=cpu, n_rows=len(sc['rows']))
    tags.add('fam:' + desc['fam'])
    if desc['fam'] == 'degenerate':
        tags.add('degenerate:' + desc['k']['kind'])
    tags.add('scaling:' + run.eff['SLICING_PRMS']['height_scale_mode'])
    if desc.get('k', {}).get('anom'):
        tags.add('anomalies')
    if desc.get('k', {}).get('extreme'):
        tags.add('extreme_parameters')
    if sc.get('index') is not None:
        tags.add('nonunique_index')
    if dbg:
        tags.add('debug_logging')
    if sc.get('extra'):
        tags.add('extra_object_columns')
    if sc.get('index_kind') == 'range':
        tags.add('range_index')
    if desc['fam'] == 'timesliced' and run.exc is None:
        d_ = run.chunk.data
        for sid, g_ in d_[d_['slice_id'] >= 0].groupby('slice_id'):
            if len(g_) >= 2 and g_['height'].nunique() == 1 and g_['ceilo'].nunique() == 1 and g_['dt'].nunique() == 1:
                tags.add('single_slice_bundle_of_one_repeated_hit')      # a slice made of one hit reported under several types
    nontriv = [pipeline.case_digest(case)] if len(sc['rows']) > 1 else []
    res = {'evals': 1, 'nontrivial': nontriv, 'tags': sorted(tags), 'viol': viol,
           'counters': {'runs': 1, 'cpu_s_total': cpu}, 'case': case}
    if desc['i'] % 211 == 0:
        res['sample'] = pipeline.small_sample(case, {'messages': run.msgs, 'cpu_s': round(cpu, 3)})
    return res
