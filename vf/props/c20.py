"""C20 - Diagnostic plotting is total and free of side effects."""
import os
import copy
import shutil
import tempfile
import warnings
import numpy as np
import pandas as pd
from .. import scenes, obs, oracles, pipeline
from .c14 import full_state

ID, NUM, LEVEL = 'C20', 20, 'exploration'
RULE = ('(rcParams are compared by value - deep copy - with user-defined font fall-back lists installed in every second case; VV hits without a height are part of the vv family.) ' 'Evaluation = one call of the real plots.diagnostic(chunk, upto, show_ceilos, ref_metar, ref_metar_origin, '
        'show=False, save_stem, save_fmts) on a chunk produced by run(), bracketed by: exception capture, the full '
        'matplotlib rcParams dictionary (key by key), plt.get_fignums(), a bit-exact hash of the complete internal '
        'state of the chunk (data incl. index labels and dtypes, tables, flags, parameters) + its three messages, '
        'the listing of a private temporary directory and of the private working directory, and '
        'dynamic.AMPYCLOUD_PRMS. Oracle: no exception; rcParams equal; chunk state unchanged; no figure left open; '
        'files written == exactly {stem.fmt}; global parameters unchanged. Plots are made in sequences within one '
        'process, in random order. Chunk families: no hits, a single hit, zero-okta layers, VV hits, more than 8 '
        'layers, more than 10 slices, more than 10 ceilometers, MSA set (incl. cropped type>=2 hits that leave gaps '
        'in the row labels), generated scenes; all four upto levels x show_ceilos x reference-METAR arguments x '
        'save formats. Non-trivial = the chunk has >= 1 hit; distinct = hash of (rows, parameters, arguments).')
ASSUMPTIONS = ['non-interactive backends only (Agg, svg, pdf - one per worker process); style "base" only (no LaTeX installation in the sandbox, so the latex/metsymb styles are unreachable)',
               'reference-METAR strings restricted to characters matplotlib mathtext renders literally']
UPTOS = ['raw_data', 'slices', 'groups', 'layers']
REQUIRED = ['upto:' + u for u in UPTOS] + ['show_ceilos_gt10_ceilos', 'gt8_layers', 'gt10_slices', 'vv_hits', 'vv_raw_noceilos',
            'no_hits', 'single_hit', 'zero_okta_layer', 'two_formats', 'msa_with_dropped_rows', 'ref_metar', 'default_format', 'dotted_stem', 'backend:agg', 'backend:svg', 'backend:pdf', 'show_true', 'vv_hit_without_height', 'user_list_valued_rcparams']
SIZES = {'quick': 60, 'thorough': 1200}     # chunks; ~4 plots each
FAMS = ['generic', 'many_ceilos', 'many_layers', 'many_slices', 'vv', 'no_hits', 'single_hit', 'zero_okta', 'msa_drop', 'generic']


def plan(tier, seed):
    return [{'fam': FAMS[i % len(FAMS)], 's': seed, 'i': i} for i in range(SIZES[tier])]


def SHARD_ENV(j, shard):
    # the non-interactive backends available offline; rcParams['backend'] is part of the compared state
    return {'MPLBACKEND': ['Agg', 'svg', 'pdf', 'Agg'][j % 4]}


def build(desc):
    rng = scenes.rng_for(desc['s'], NUM, desc['i'])
    fam = desc['fam']
    call = {}
    if fam == 'generic':
        sc = scenes.gen_scene(rng, maxrows=250)
        call = scenes.gen_prms(rng, sc, scaling=False, rich=False)['call']
    elif fam == 'many_ceilos':
        rows = [['c%02d' % k, -t * 15.0 - k * 0.1, 1000.0 + 40 * k + float(rng.normal(0, 5)), 1] for k in range(12) for t in range(6)]
        sc = {'rows': rows, 'names': ['c%02d' % k for k in range(12)], 'order': 'asc', 'fam': fam}
    elif fam == 'many_layers':
        layers = [{'h': 800.0 + 1400 * j, 'count': int(rng.choice([5, 12, 25, 40]))} for j in range(10)]
        sc = scenes.flat_layers_scene(rng, layers, nt=40)
        call = {'SLICING_PRMS': {'distance_threshold': 0.02}}
    elif fam == 'many_slices':
        rows = [['a', -t * 15.0, 500.0 + 900 * (t % 14) + float(rng.normal(0, 3)), 1] for t in range(56)]
        sc = {'rows': rows, 'names': ['a'], 'order': 'asc', 'fam': fam}
        call = {'SLICING_PRMS': {'distance_threshold': 0.01}}
    elif fam == 'vv':
        rows = [['a', -t * 15.0, 300.0 + float(rng.normal(0, 20)) if t % 7 != 3 else float('nan'), -1] for t in range(30)]   # some VV hits without a height
        rows += [['b', -t * 15.0 - 1, 2500.0 + float(rng.normal(0, 20)), 1 if t % 3 else -1] for t in range(30)]
        sc = {'rows': rows, 'names': ['a', 'b'], 'order': 'asc', 'fam': fam}
    elif fam == 'no_hits':
        sc = scenes.degenerate_scene(rng, 'all_nan')
    elif fam == 'single_hit':
        sc = scenes.degenerate_scene(rng, 'single_valid' if rng.uniform() < 0.5 else 'single_row')
    elif fam == 'zero_okta':
        sc = scenes.flat_layers_scene(rng, [{'h': 1000.0, 'count': 2}, {'h': 4000.0, 'count': 30}, {'h': 7000.0, 'count': 1}], nt=40)
        call = {'SLICING_PRMS': {'distance_threshold': 0.05}}
    elif fam == 'msa_drop':
        sc = scenes.flat_layers_scene(rng, [{'h': 1000.0, 'count': 30, 'std': 10}, {'h': 6000.0, 'count': 25, 'std': 10},
                                            {'h': 8000.0, 'count': 12, 'std': 10}], nt=40)
        call = {'MSA': 4000.0, 'MSA_HIT_BUFFER': 500.0}
    sc['fam'] = fam
    return {'scene': sc, 'prm': {'call': call, 'glob': {}}}


def listing(d):
    out = []
    for dp, dn, fn in os.walk(d):
        for f in fn:
            out.append(os.path.relpath(os.path.join(dp, f), d))
    return sorted(out)


def check(desc):
    import matplotlib
    import matplotlib.pyplot as plt
    import ampycloud
    from ampycloud import dynamic
    from ampycloud.plots import diagnostic
    case = build(desc)
    rng = scenes.rng_for(desc['s'], NUM, desc['i'], 3)
    viol, tags = [], set()
    res = {'evals': 0, 'nontrivial': [], 'counters': {'plots': 0}, 'viol': viol, 'case': case}
    eff = obs.effective(case['prm'])
    if scenes.empties_chunk(case['scene'], eff):
        res['tags'] = ['skipped_empty_after_crop']
        return res
    try:
        ch = obs.run(scenes.frame(case['scene']), case['prm'])
    except Exception as e:      # noqa - decided by C08
        res['tags'] = ['crashed:' + type(e).__name__]
        return res
    fam = desc['fam']
    tags.add('backend:' + str(matplotlib.get_backend()).lower())
    d = ch.data
    if len(ch.ceilos) > 10:
        tags.add('gt10_ceilos')
    if ch.n_layers > 8:
        tags.add('gt8_layers')
    if ch.n_slices > 10:
        tags.add('gt10_slices')
    if (d['type'] == -1).any():
        tags.add('vv_hits')
    if d['height'].notna().sum() == 0:
        tags.add('no_hits')
    if d['height'].notna().sum() == 1:
        tags.add('single_hit')
    if len(ch.layers) and (ch.layers['okta'] == 0).any():
        tags.add('zero_okta_layer')
    if list(d.index) != list(range(len(d))):
        tags.add('msa_with_dropped_rows')
    cwd0 = os.getcwd()
    work = tempfile.mkdtemp(prefix='c20_cwd_')
    outd = tempfile.mkdtemp(prefix='c20_out_')
    os.chdir(work)
    plt.close('all')
    glob0 = copy.deepcopy(dynamic.AMPYCLOUD_PRMS)
    combos = [(u, sc_) for u in UPTOS for sc_ in (False, True)]
    order = [combos[j] for j in rng.permutation(len(combos))][:5]
    if fam == 'many_ceilos':
        order[0] = ('raw_data', True)
    if fam == 'vv':
        order[0] = ('raw_data', False)
        order[1] = ('layers', True)
        if (d['type'] == -1).to_numpy()[d['height'].isna().to_numpy()].any():
            tags.add('vv_hit_without_height')
    user_rc = None
    if desc['i'] % 2 == 1:
        # a user's own list-valued rcParams (font fall-back lists that do not start with matplotlib's defaults)
        import logging
        logging.getLogger('matplotlib.font_manager').disabled = True
        user_rc = {k: copy.deepcopy(matplotlib.rcParams[k]) for k in ('font.monospace', 'font.sans-serif', 'font.serif')}
        matplotlib.rcParams['font.monospace'] = ['Courier New', 'Liberation Mono', 'monospace']
        matplotlib.rcParams['font.sans-serif'] = ['Arial', 'DejaVu Sans', 'sans-serif']
        matplotlib.rcParams['font.serif'] = ['Times New Roman', 'DejaVu Serif', 'serif']
        tags.add('user_list_valued_rcparams')
    try:
        with warnings.catch_warnings():
            warnings.simplefilter('ignore')
            for n, (upto, show_ceilos) in enumerate(order):
                fmts = [None, 'png', ['png'], ['png', 'pdf'], ['pdf']][int(rng.integers(5))] if n % 2 == 0 else 'skip'
                sname = ['plot_%d_%d', 'LSGG_2024.06.01_12.30_%d_%d', 'run_v1.2_%d_%d', 'plot_%d_%d'][(desc['i'] + n) % 4] % (desc['i'], n)
                stem = os.path.join(outd, sname) if fmts != 'skip' else None
                if stem is not None and '.' in sname:
                    tags.add('dotted_stem')
                    # an unrelated file that a wrongly derived name would overwrite
                    with open(os.path.join(outd, sname.rsplit('.', 1)[0] + '.png'), 'w') as fh:
                        fh.write('precious')
                    with open(os.path.join(outd, sname.rsplit('.', 1)[0] + '.pdf'), 'w') as fh:
                        fh.write('precious')
                ref = [None, 'FEW010 BKN040', 'NCD', 'OVC001 (obs)'][int(rng.integers(4))]
                origin = [None, 'Human obs.', 'METAR LSGG'][int(rng.integers(3))]
                kw = dict(upto=upto, show_ceilos=show_ceilos, ref_metar=ref, ref_metar_origin=origin, show=False,
                          save_stem=stem, save_fmts=None if fmts in ('skip', None) else fmts)
                rc0 = copy.deepcopy(dict(matplotlib.rcParams))            # by value: list-valued entries edited in place must show
                st0 = full_state(ch)
                msg0 = [ch.metar_msg(w) for w in obs.WHICH]
                figs0 = plt.get_fignums()
                out0, cwdl0 = listing(outd), listing(work)
                pre = {f: open(os.path.join(outd, f), 'rb').read() for f in out0}
                exc = None
                try:
                    diagnostic(ch, **kw)
                except Exception as e:      # noqa
                    exc = e
                res['evals'] += 1
                res['counters']['plots'] += 1
                wit = dict(family=fam, args={k: v for k, v in kw.items() if k != 'save_stem'}, n_ceilos=len(ch.ceilos),
                           n_layers=ch.n_layers, n_slices=ch.n_slices, plot_in_sequence=n)
                tags.add('upto:' + upto)
                if ref is not None or origin is not None:
                    tags.add('ref_metar')
                if show_ceilos and len(ch.ceilos) > 10 and upto == 'raw_data':
                    tags.add('show_ceilos_gt10_ceilos')
                if 'vv_hits' in tags and upto == 'raw_data' and not show_ceilos:
                    tags.add('vv_raw_noceilos')
                if exc is not None:
                    oracles.V(viol, 'C20', 'diagnostic() raises', exc=type(exc).__name__, msg=str(exc)[:200], **wit)
                rc1 = copy.deepcopy(dict(matplotlib.rcParams))
                if rc1 != rc0:
                    bad = [k for k in rc0 if rc0[k] != rc1.get(k)] + [k for k in rc1 if k not in rc0]
                    oracles.V(viol, 'C20', 'global matplotlib rcParams changed', keys=bad[:6], **wit)
                    matplotlib.rcParams.update(rc0)
                if full_state(ch) != st0 or [ch.metar_msg(w) for w in obs.WHICH] != msg0:
                    oracles.V(viol, 'C20', 'chunk data / tables / message changed by the plot', **wit)
                    st0 = None
                if plt.get_fignums() != figs0:
                    oracles.V(viol, 'C20', 'a figure stays open with show=False', open_figures=plt.get_fignums(), **wit)
                    plt.close('all')
                new = sorted(set(listing(outd)) - set(out0))
                if stem is None:
                    exp = []
                else:
                    f_ = ['pdf'] if kw['save_fmts'] is None else ([kw['save_fmts']] if isinstance(kw['save_fmts'], str) else kw['save_fmts'])
                    exp = sorted(os.path.basename(stem) + '.' + f for f in f_)
                    if kw['save_fmts'] is None:
                        tags.add('default_format')
                    if len(f_) == 2:
                        tags.add('two_formats')
                if exc is None and new != exp:
                    oracles.V(viol, 'C20', 'files written != exactly the requested ones', written=new, expected=exp, **wit)
                changed = [f for f in out0 if not os.path.exists(os.path.join(outd, f)) or open(os.path.join(outd, f), 'rb').read() != pre[f]]
                if changed:
                    oracles.V(viol, 'C20', 'an existing, unrelated file was overwritten / removed', files=changed[:4], **wit)
                if listing(work) != cwdl0:
                    oracles.V(viol, 'C20', 'files written outside the requested location (working directory)',
                              files=listing(work)[:5], **wit)
                if dynamic.AMPYCLOUD_PRMS != glob0:
                    oracles.V(viol, 'C20', 'global parameters changed by the plot', **wit)
                if d['height'].notna().any():
                    res['nontrivial'].append(obs.case_hash(pipeline.case_digest(case), upto, show_ceilos, ref, origin, str(fmts)))
                if len(viol) >= 6:
                    break
            # show=True: nothing may be raised either (non-interactive backends only warn); the figure then stays open
            if len(viol) == 0:
                try:
                    diagnostic(ch, upto=order[0][0], show_ceilos=order[0][1], show=True)
                    tags.add('show_true')
                    res['evals'] += 1
                except Exception as e:      # noqa
                    oracles.V(viol, 'C20', 'diagnostic(show=True) raises', exc=type(e).__name__, msg=str(e)[:200], family=fam)
                plt.close('all')
    finally:
        plt.close('all')
        if user_rc is not None:
            matplotlib.rcParams.update(user_rc)
        os.chdir(cwd0)
        shutil.rmtree(work, ignore_errors=True)
        shutil.rmtree(outd, ignore_errors=True)
    res['tags'] = sorted(tags) + ['fam:' + fam]
    res['viol'] = viol[:8]
    if desc['i'] % 10 == 0:
        res['sample'] = pipeline.small_sample(case, {'plots': [list(o) for o in order], 'n_layers': ch.n_layers, 'n_ceilos': len(ch.ceilos)})
    return res
