"""C19 - Scalings are order-preserving, invertible and blind to non-detections."""
import copy
import numpy as np
from .. import scenes, obs, oracles

ID, NUM, LEVEL = 'C19', 19, 'exploration'
RULE = ('Evaluation = one (array, scaling mode, user kwargs) triple pushed through the real scaler.apply_scaling (and through minmax_scale / shift_and_scale / step_scale called directly with their data-derived defaults), '
        'with the deterministic do/undo kwargs derived by the real plots.tools.get_scaling_kwargs. Oracle: for '
        'finite x<y, f(x)<=f(y); undo(do(x)) == x within a conditioning-aware absolute bound 64*eps*(max|x| + '
        'max|offset| + (max|y|+max|continuity term|)*max scale); minmax output within [0,1] and output span == '
        'range/max(range, min_range); step scaling: left/right limits at every step edge agree and the output '
        'does not decrease across edges; NaN positions preserved and the finite entries scale bit-identically '
        'to the array with the NaNs removed; all-NaN passes through. Workload: arrays of length 1-500 in '
        '[-1e5, 1e5] (NaNs interspersed, constants, single values, values exactly on step edges) x scale in '
        '(1e-3, 1e6] x min_range >= 0 with span >= 1e-6 x sorted step lists of length 0-4 with positive scales; '
        'plus the in-situ apply_scaling calls of pipeline runs in all three slicing modes. Non-trivial = >= 2 '
        'distinct finite values; distinct = hash of (array, mode, kwargs).')
ASSUMPTIONS = ['min_range/value span of at least 1e-6 (stated domain)', 'IEEE double arithmetic']
REQUIRED = ['mode:shift-and-scale', 'mode:minmax-scale', 'mode:step-scale', 'nans_interspersed', 'value_on_step_edge',
            'min_range_binding', 'all_nan', 'single_value', 'constant', 'in_situ', 'max_exactly_0', 'window_edge_exactly_0', 'direct_function_calls', 'integer_typed_input'] + ['steps%d' % k for k in range(5)]
SIZES = {'quick': 24000, 'thorough': 600000}
EPS = np.finfo(float).eps


def plan(tier, seed):
    n = SIZES[tier]
    per = 500
    out = [{'fam': 'arrays', 'lo': j * per, 'n': per, 's': seed, 'i': j} for j in range(n // per)]
    for j in range(6 if tier == 'quick' else 48):
        out.append({'fam': 'insitu', 's': seed, 'i': 100000 + j, 'n': 6})
    return out


def weight(d):
    return 3.0 if d['fam'] == 'insitu' else 1.0


def gen_array(rng):
    kind = rng.uniform()
    n = int(rng.choice([1, 2, 3, 5, 10, 40, 200, 500]))
    top = float(rng.choice([10, 1000, 1e4, 1e5]))
    if kind < 0.08:
        x = np.full(n, float(rng.uniform(-top, top)))
    elif kind < 0.5:
        x = rng.uniform(0, top, n)
    elif kind < 0.7:
        x = rng.uniform(-top, top, n)
    elif kind < 0.85:
        x = np.round(rng.uniform(0, top, n), -1)
    else:
        x = rng.normal(top / 2, top / 20, n)
        x[0] = top                                    # skewed
    x = np.clip(np.asarray(x, dtype=float), -1e5, 1e5)
    z = rng.uniform()
    if z < 0.08:
        x = x - x.max()               # maximum exactly 0 (e.g. time deltas with the newest hit at dt = 0)
    elif z < 0.14:
        x = x - x.min()               # minimum exactly 0
    u = rng.uniform()
    if u < 0.3 and n > 1:
        x[rng.uniform(size=n) < 0.3] = np.nan
    elif u < 0.33:
        x[:] = np.nan
    return x


def gen_mode(rng, x):
    m = str(rng.choice(['shift-and-scale', 'minmax-scale', 'step-scale']))
    fin = x[~np.isnan(x)]
    if m == 'shift-and-scale':
        kw = {'scale': float(10 ** rng.uniform(-3, 6))}
        if rng.uniform() < 0.4:
            kw['shift'] = float(rng.choice([0.0, rng.uniform(-1e5, 1e5)]))
    elif m == 'minmax-scale':
        rngx = float(fin.max() - fin.min()) if len(fin) else 0.0
        mr = float(rng.choice([0.0, 1e-6, 0.1, 10.0, 1000.0, 5000.0, rngx * 2 + 1e-3]))
        if len(fin) and rng.uniform() < 0.15 and fin.max() + fin.min() < 0 and -(fin.max() + fin.min()) > rngx:
            mr = float(-(fin.max() + fin.min()))          # widened window [2*mid, 0]: upper edge exactly 0
        elif len(fin) and rng.uniform() < 0.1 and fin.max() + fin.min() > rngx:
            mr = float(fin.max() + fin.min())             # widened window [0, 2*mid]: lower edge exactly 0
        if max(rngx, mr) < 1e-6:
            mr = 1e-6 if rng.uniform() < 0.5 else 1000.0
        kw = {'min_range': mr} if (mr > 0 or rng.uniform() < 0.5) else {}
    else:
        k = int(rng.integers(0, 5))
        if rng.uniform() < 0.5:
            steps = sorted(float(v) for v in rng.choice([500.0, 1000.0, 3000.0, 8000.0, 14000.0, 20000.0, 50000.0], k, replace=False))
        else:
            steps = sorted(float(v) for v in rng.uniform(-1e4, 1e5, k))
        scales = [float(10 ** rng.uniform(-1, 4)) for _ in range(k + 1)]
        if rng.uniform() < 0.15:      # one fully fixed parameter set, used again and again within a process
            k = 2
            steps, scales = [3000.0, 8000.0], [100.0, 500.0, 1000.0]
        elif rng.uniform() < 0.3:       # recurring step lists whose inner scales recur too: only the outer scales vary
            steps = [3000.0, 8000.0, 14000.0][:k]
            scales = [scales[0]] + [500.0, 250.0][:max(k - 1, 0)] + ([scales[-1]] if k else [])
        kw = {'steps': steps, 'scales': scales}
        if k and len(fin) and rng.uniform() < 0.5:       # put values exactly on the edges
            x = x.copy()
            idx = np.where(~np.isnan(x))[0]
            for e in steps[:len(idx)]:
                x[idx[int(rng.integers(len(idx)))]] = e
    if len(fin) == len(x) and rng.uniform() < 0.12:
        # integer-typed input (e.g. heights read as int64 / int32): same values, another dtype of the intermediates
        xi = np.round(x).astype(np.int64 if rng.uniform() < 0.5 else np.int32)
        ok = m != 'step-scale' or not any(v in set(kw['steps']) for v in x.tolist())
        if m == 'minmax-scale' and max(float(xi.max() - xi.min()), float(kw.get('min_range', 0.0))) < 1e-6:
            ok = False          # rounding collapsed the span: outside the stated domain (span >= 1e-6)
        if ok:
            x = xi
    return m, kw, x


def judge(x, m, kw, viol, tags):
    """All clauses for one triple; returns True when the case is non-trivial."""
    from ampycloud import scaler
    from ampycloud.plots.tools import get_scaling_kwargs
    if x.dtype.kind in 'iu':
        # the scaling of integer-typed values must equal the scaling of the same values as floats
        tags.add('integer_typed_input')
        yi = np.asarray(scaler.apply_scaling(x.copy(), m, **copy.deepcopy(kw)), dtype=float)
        yf_ = np.asarray(scaler.apply_scaling(x.astype(float), m, **copy.deepcopy(kw)), dtype=float)
        if yi.shape != yf_.shape or not np.allclose(yi, yf_, rtol=1e-12, atol=1e-12, equal_nan=True):
            oracles.V(viol, 'C19', 'integer-typed input is scaled differently from the same values as floats', mode=m, kwargs=kw,
                      x=[int(v) for v in x[:12]], as_int=[float(v) for v in yi[:6]], as_float=[float(v) for v in yf_[:6]])
        x = x.astype(float)
    fin_mask = ~np.isnan(x)
    fin = x[fin_mask]
    wit = dict(mode=m, kwargs=kw, x=[float(v) for v in x[:12]], n=len(x))
    y = scaler.apply_scaling(x.copy(), m, **copy.deepcopy(kw))
    y = np.asarray(y, dtype=float)
    tags.add('mode:' + m)
    if len(fin) == 0:
        tags.add('all_nan')
        if not (y.shape == x.shape and np.isnan(y).all()):
            oracles.V(viol, 'C19', 'all-NaN array does not pass through', **wit)
        return False
    if fin.max() == 0:
        tags.add('max_exactly_0')
    if len(fin) == 1:
        tags.add('single_value')
    elif fin.min() == fin.max():
        tags.add('constant')
    if fin_mask.sum() < len(x):
        tags.add('nans_interspersed')
    if y.shape != x.shape or (np.isnan(y) != ~fin_mask).any():
        oracles.V(viol, 'C19', 'NaN positions not preserved', y=[float(v) for v in y[:12]], **wit)
        return False
    yf = y[fin_mask]
    if not np.isfinite(yf).all():
        oracles.V(viol, 'C19', 'finite value scaled to a non-finite one', **wit)
        return False
    # NaN blindness
    y2 = np.asarray(scaler.apply_scaling(fin.copy(), m, **copy.deepcopy(kw)), dtype=float)
    if not np.array_equal(y2, yf):
        k = int(np.where(y2 != yf)[0][0])
        oracles.V(viol, 'C19', 'NaN entries affect the scaling of the other values', with_nans=float(yf[k]),
                  without=float(y2[k]), **wit)
    # the scaling functions called directly with their data-derived defaults (no explicit shift / min / max)
    try:
        if m == 'minmax-scale' and fin.max() > fin.min():
            yd = np.asarray(scaler.minmax_scale(x.copy()), dtype=float)
            exp_d = (fin - fin.min()) / (fin.max() - fin.min())
            if (np.isnan(yd) != ~fin_mask).any() or not np.array_equal(yd[fin_mask], exp_d):
                oracles.V(viol, 'C19', 'minmax_scale(x) with default bounds: NaNs leak into / change the scaling', **wit)
            tags.add('direct_function_calls')
        elif m == 'shift-and-scale' and 'shift' not in kw:
            yd = np.asarray(scaler.shift_and_scale(x.copy(), scale=kw['scale']), dtype=float)
            if (np.isnan(yd) != ~fin_mask).any() or not np.array_equal(yd[fin_mask], yf):
                oracles.V(viol, 'C19', 'shift_and_scale(x) with the default shift differs from apply_scaling / loses values to NaN', **wit)
            tags.add('direct_function_calls')
        elif m == 'step-scale':
            yd = np.asarray(scaler.step_scale(x.copy(), list(kw['steps']), list(kw['scales'])), dtype=float)
            if (np.isnan(yd) != ~fin_mask).any() or not np.array_equal(yd[fin_mask], yf):
                oracles.V(viol, 'C19', 'step_scale(x) called directly differs from apply_scaling', **wit)
    except Exception as e:      # noqa
        oracles.V(viol, 'C19', 'direct call of a scaling function raises', exc=type(e).__name__, msg=str(e)[:120], **wit)
    # order
    idx = np.argsort(fin, kind='stable')
    d = np.diff(yf[idx])
    if (d < 0).any():
        k = int(np.where(d < 0)[0][0])
        oracles.V(viol, 'C19', 'order of two values reversed', x1=float(fin[idx][k]), x2=float(fin[idx][k + 1]),
                  y1=float(yf[idx][k]), y2=float(yf[idx][k + 1]), **wit)
    same = np.diff(fin[idx]) == 0
    if (d[same] != 0).any():
        oracles.V(viol, 'C19', 'equal values scaled differently', **wit)
    # undo with the parameters derived from the original data (the real derivation used by the plots)
    do_kw, undo_kw = get_scaling_kwargs(x.copy(), m, copy.deepcopy(kw))
    y3 = np.asarray(scaler.apply_scaling(x.copy(), m, **copy.deepcopy(do_kw)), dtype=float)
    if not np.array_equal(y3[fin_mask], yf):
        oracles.V(viol, 'C19', 'derived deterministic kwargs give a different scaling than the user kwargs',
                  derived={k: (v if not isinstance(v, np.generic) else v.item()) for k, v in do_kw.items()}, **wit)
    # the documented default mode spelled out: same scaling, non-detections still transparent
    y4 = np.asarray(scaler.apply_scaling(x.copy(), m, mode='do', **copy.deepcopy(kw)), dtype=float)
    if not np.array_equal(y4, y, equal_nan=True):
        oracles.V(viol, 'C19', "explicit mode='do' scales differently from the default mode (or is not blind to non-detections)",
                  y=[float(v) for v in y4[:12]], **wit)
    back = np.asarray(scaler.apply_scaling(y.copy(), m, **copy.deepcopy(undo_kw)), dtype=float)
    ax = float(np.abs(fin).max())
    ay = float(np.abs(yf).max())
    if m == 'shift-and-scale':
        tol = 64 * EPS * (ax + abs(float(do_kw['shift'])) + ay * float(do_kw['scale']))
    elif m == 'minmax-scale':
        lo, hi = float(do_kw['min_val']), float(do_kw['max_val'])
        tol = 64 * EPS * (ax + abs(lo) + abs(hi) + ay * abs(hi - lo))
    else:
        st, sc = kw['steps'], kw['scales']
        cont = [0.0]
        if st:
            cc = np.concatenate(([st[0] / sc[0]], np.diff(st) / np.array(sc[1:-1])))
            cont = np.abs(np.cumsum(cc)).tolist() + [0.0]
        tol = 64 * EPS * (ax + (max(abs(v) for v in st) if st else 0.0) + (ay + max(cont)) * max(sc))
    tol = max(tol, 1e-300)
    if (np.isnan(back) != ~fin_mask).any() or not np.all(np.abs(back[fin_mask] - fin) <= tol):
        bf = back[fin_mask]
        k = int(np.nanargmax(np.where(np.isnan(bf), np.inf, np.abs(bf - fin))))
        oracles.V(viol, 'C19', 'undo(do(x)) != x', x_k=float(fin[k]), back_k=float(bf[k]), tol=tol, **wit)
    # mode-specific clauses
    if m == 'minmax-scale':
        mr = float(kw.get('min_range', 0))
        span = float(fin.max() - fin.min())
        if mr > span:
            tags.add('min_range_binding')
            if float(do_kw['max_val']) == 0 or float(do_kw['min_val']) == 0:
                tags.add('window_edge_exactly_0')
        if yf.min() < -1e-12 or yf.max() > 1 + 1e-12:
            oracles.V(viol, 'C19', 'minmax output outside [0,1]', ymin=float(yf.min()), ymax=float(yf.max()), **wit)
        exp = span / max(span, mr)
        if abs((yf.max() - yf.min()) - exp) > 1e-9:
            oracles.V(viol, 'C19', 'minimum range not honoured', out_span=float(yf.max() - yf.min()), expected=exp, **wit)
    if m == 'step-scale':
        st = kw['steps']
        tags.add('steps%d' % len(st))
        if any(v in set(st) for v in fin.tolist()):
            tags.add('value_on_step_edge')
        for e in st:
            l = np.nextafter(e, -np.inf)
            pts = np.array([l, e, np.nextafter(e, np.inf)])
            ys = np.asarray(scaler.apply_scaling(pts, m, **copy.deepcopy(kw)), dtype=float)
            jump_tol = 1e-9 * max(1.0, abs(float(ys[1]))) + 4 * EPS * abs(e) / min(kw['scales'])
            if not np.isfinite(ys).all() or abs(ys[1] - ys[0]) > jump_tol or ys[1] < ys[0] - jump_tol or ys[2] < ys[1] - jump_tol:
                oracles.V(viol, 'C19', 'step scaling is not continuous / decreases across a step edge', edge=e,
                          left=float(ys[0]), at=float(ys[1]), right=float(ys[2]), **wit)
    return len(np.unique(fin)) >= 2


def check(desc):
    viol, tags = [], set()
    if desc['fam'] == 'insitu':
        from .. import pipeline
        n = 0
        nt = []
        for j in range(desc['n']):
            mode = ['minmax-scale', 'shift-and-scale', 'step-scale'][j % 3]
            case = pipeline.materialise({'fam': 'generic', 's': desc['s'], 'p': NUM, 'i': desc['i'] * 100 + j,
                                         'k': {'rich': False}})
            if mode != 'minmax-scale':
                case['prm']['glob']['SLICING_PRMS'] = {
                    'distance_threshold': 0.2, 'dt_scale': 100000, 'height_scale_mode': mode,
                    'height_scale_kwargs': {'scale': 1000.0} if mode == 'shift-and-scale' else
                    {'steps': [3000.0, 8000.0], 'scales': [100.0, 500.0, 1000.0]}}
            run = pipeline.execute(case, msgs=False)
            n += run.rec.counts.get('apply_scaling', 0)
            viol += [b for b in run.rec.broken if b['prop'] == 'C19']
            nt.append(pipeline.case_digest(case))
        return {'evals': n, 'nontrivial': nt, 'tags': ['in_situ'] if n else [], 'viol': viol[:20],
                'counters': {'in_situ_contract_evaluations': n}}
    ev = 0
    nt = []
    sample = None
    for j in range(desc['n']):
        rng = scenes.rng_for(desc['s'], NUM, desc['lo'] + j)
        x = gen_array(rng)
        m, kw, x = gen_mode(rng, x)
        nv = len(viol)
        try:
            nontriv = judge(x, m, kw, viol, tags)
        except Exception as e:      # noqa - a scaling of a domain value must not raise
            oracles.V(viol, 'C19', 'exception while scaling a value array of the stated domain', exc=type(e).__name__,
                      msg=str(e)[:200], mode=m, kwargs=kw, x=[float(v) for v in x[:12]])
            nontriv = False
        for v in viol[nv:]:
            v['case_index'] = desc['lo'] + j
        ev += 1
        if nontriv:
            nt.append(obs.case_hash(x.tolist(), m, kw))
        if sample is None and nontriv:
            sample = {'x': [float(v) for v in x[:8]], 'n': len(x), 'mode': m, 'kwargs': kw}
    return {'evals': ev, 'nontrivial': nt, 'tags': sorted(tags), 'viol': viol[:20], 'counters': {'arrays': ev},
            'sample': sample if desc['i'] % 12 == 0 else None}
