"""C10 - Outcome depends only on the four column values, not on index labels or layout."""
import copy
import numpy as np
import pandas as pd
from .. import scenes, obs, oracles, twin, pipeline

ID, NUM, LEVEL = 'C10', 10, 'exploration'
VARIANTS = ['idx_permuted', 'idx_offset', 'idx_string', 'idx_float', 'idx_concat', 'idx_random_repeats', 'idx_all_same',
            'idx_sorted_repeats', 'idx_datetime', 'idx_named_like_column', 'idx_multi_from_columns', 'idx_range_descending', 'idx_range_offset', 'idx_exotic_type', 'cols_stale_ids', 'cols_permuted', 'cols_extra', 'ceilo_object', 'ceilo_str_or_category',
            'type_float', 'type_narrow_int', 'dt_height_int', 'height_float32', 'dtype_big_endian', 'frame_flags_and_attrs']
RULE = ('Evaluation = one (plainly indexed frame, variant frame) pair run through the real pipeline; the two canonical '
        'observations (three tables incl. dtypes, three messages, flag, per-hit data by position) must be bit-'
        'identical and the variant must not raise. Variants: ' + ', '.join(VARIANTS) + ' (index relabellings unique '
        'and non-unique - per-ceilometer concat, random repeats, one label for all rows, sorted repeats -, column '
        'permutations, extra columns, big-endian dtypes, the no-duplicate-labels flag with attrs, ceilo as object/str/category, type as float/int8/int32, dt and height as '
        'integers or float32 where exact), each with and without an MSA that crops hits (label-based crop path). '
        'Non-trivial = >= 2 valid hits; distinct = hash of (rows, parameters, variant).')
ASSUMPTIONS = ['dtype variants are used only where the conversion is exact']
# scenes: a third with the warn-only anomalies, a sixth with non-detections holding a placeholder height
REQUIRED = VARIANTS + ['nonunique_labels_with_crop', 'nonunique_labels_with_type0_rows_holding_a_height', 'with_msa', 'without_msa']
SIZES = {'quick': 80, 'thorough': 2000}


def plan(tier, seed):
    # three descriptors per scene (a third of the variants each): better balance over the workers
    return [{'s': seed, 'i': i, 'part': part} for i in range(SIZES[tier]) for part in range(3)]


def make_variant(rng, df, name):
    n = len(df)
    out = df.copy()
    if name == 'idx_permuted':
        out.index = pd.Index(rng.permutation(n))
    elif name == 'idx_offset':
        out.index = pd.RangeIndex(1000, 1000 + 7 * n, 7)
    elif name == 'idx_string':
        out.index = pd.Index(['row%05d' % j for j in rng.permutation(n)])
    elif name == 'idx_float':
        out.index = pd.Index(rng.permutation(n) * 0.5 - 3.25)
    elif name == 'idx_concat':
        # the labels a pd.concat of per-ceilometer frames carries (row order kept)
        out.index = pd.Index(out.groupby('ceilo', sort=False).cumcount().to_numpy())
    elif name == 'idx_random_repeats':
        out.index = pd.Index(rng.integers(0, max(2, n // 3), n))
    elif name == 'idx_all_same':
        out.index = pd.Index([0] * n)
    elif name == 'idx_sorted_repeats':
        out.index = pd.Index(np.sort(rng.integers(0, max(2, n // 2), n)))
    elif name == 'idx_datetime':
        out.index = pd.to_datetime('2024-01-01') + pd.to_timedelta(rng.integers(0, 5, n), unit='s')
    elif name == 'idx_named_like_column':
        out.index = pd.Index(rng.permutation(n), name=str(rng.choice(['dt', 'ceilo', 'height', 'type'])))
        if rng.uniform() < 0.5:
            out = df.set_index(str(rng.choice(['dt', 'ceilo'])), drop=False)
    elif name == 'idx_multi_from_columns':
        out = df.set_index(['ceilo', 'dt'], drop=False)
    elif name == 'idx_range_descending':
        out.index = pd.RangeIndex(n - 1, -1, -1)
    elif name == 'idx_range_offset':
        out.index = pd.RangeIndex(133, 133 + n) if rng.uniform() < 0.5 else pd.RangeIndex(-7, -7 + 3 * n, 3)
    elif name == 'idx_exotic_type':
        kind = int(rng.integers(9))
        out.index = [pd.MultiIndex.from_arrays([np.arange(n) % 3, np.arange(n) // 3]),
                     pd.MultiIndex.from_arrays([np.zeros(n, int), np.arange(n) % 2]),
                     pd.CategoricalIndex((['x', 'y', 'z'] * n)[:n]),
                     pd.interval_range(0, n) if n else pd.Index([]),
                     pd.period_range('2024-01', periods=n, freq='D'),
                     pd.to_timedelta(np.arange(n) % 4, unit='s'),
                     pd.Index(([True, False] * n)[:n]),
                     pd.Index([np.nan] * n),
                     pd.Index(([1, 'a', None, 2.5] * n)[:n], dtype=object)][kind]
    elif name == 'cols_stale_ids':
        # the frame of an earlier run fed back: superfluous columns that bear the names of ampycloud's own id columns
        for c in ('slice_id', 'group_id', 'layer_id'):
            out[c] = rng.integers(-1, 4, n)
        if rng.uniform() < 0.5:
            out['layer_id'] = out['layer_id'].astype(object)
    elif name == 'cols_permuted':
        out = out[list(rng.permutation(out.columns))]
    elif name == 'cols_extra':
        out.insert(0, 'station', 'LSGG')
        out['quality'] = rng.uniform(size=n)
        if rng.uniform() < 0.5:
            out['aux'] = [[i] for i in range(n)]          # unhashable cells
        out = out[list(rng.permutation(out.columns))]
    elif name == 'ceilo_object':
        out['ceilo'] = out['ceilo'].astype(object)
    elif name == 'ceilo_str_or_category':
        out['ceilo'] = out['ceilo'].astype('category') if rng.uniform() < 0.5 else pd.Series(list(out['ceilo']), index=out.index)
    elif name == 'type_float':
        out['type'] = out['type'].astype(float)
    elif name == 'type_narrow_int':
        out['type'] = out['type'].astype(np.int8 if rng.uniform() < 0.5 else np.int32)
    elif name == 'dt_height_int':
        out['dt'] = out['dt'].astype(np.int64)
        if out['height'].notna().all():
            out['height'] = out['height'].astype(np.int64)
    elif name == 'height_float32':
        out['height'] = out['height'].astype(np.float32)
    elif name == 'dtype_big_endian':
        # same values in non-native byte order (binary / FITS / netCDF readers)
        out['dt'] = out['dt'].to_numpy().astype('>f8')
        out['height'] = out['height'].to_numpy().astype('>f8')
        out['type'] = out['type'].to_numpy().astype('>i8' if rng.uniform() < 0.5 else '>i2')
    elif name == 'frame_flags_and_attrs':
        # pandas' "no duplicate labels" flag and user metadata travel with every copy of the frame
        out.flags.allows_duplicate_labels = False
        out.attrs.update({'source': 'reader-x', 'units': {'height': 'ft'}})
    else:
        raise ValueError(name)
    return out


def check(desc):
    rng = scenes.rng_for(desc['s'], NUM, desc['i'])
    i = desc['i']
    sc = scenes.gen_scene(rng, maxrows=300, nce=int(rng.choice([1, 2, 3, 4])), anomalies=(i % 3 == 2))
    if i % 6 == 1:
        # warn-only anomaly: non-detections that carry a (placeholder) height
        rng_a = scenes.rng_for(desc['s'], NUM, desc['i'], 77)
        for r in sc['rows']:
            if r[3] == 0 and rng_a.uniform() < 0.5:
                r[2] = float(rng_a.choice([0.0, 1500.0, float(rng_a.uniform(0, 5000))]))
                sc['type0_with_height'] = True
    prm = scenes.gen_prms(rng, sc, msa=False, rich=(i % 3 == 0))
    hs = np.sort(scenes.heights_of(sc))
    with_msa = i % 2 == 0 and len(hs) > 0
    if with_msa:
        prm['call']['MSA'] = float(hs[int(len(hs) * rng.uniform(0.3, 0.9))])
        prm['call']['MSA_HIT_BUFFER'] = float(rng.choice([0, 100]))
    else:
        prm['call']['MSA'] = None
    eff = obs.effective(prm)
    viol, tags = [], set()
    res = {'evals': 0, 'nontrivial': [], 'counters': {'runs': 0}, 'viol': viol}
    if scenes.empties_chunk(sc, eff):
        res['tags'] = ['skipped_empty_after_crop']
        return res
    tags.add('with_msa' if with_msa else 'without_msa')
    df = scenes.frame(sc)
    # exact-integer base for the integer/float32 dtype variants
    df_round = df.copy()
    df_round['dt'] = np.round(df_round['dt']) + 0.0          # + 0.0: no negative zeros
    df_round['height'] = np.round(df_round['height']) + 0.0
    df_round = df_round.drop_duplicates().reset_index(drop=True)
    base_plain, e0 = twin.observe_run(df, prm)
    base_round, e1 = twin.observe_run(df_round, prm)
    res['counters']['runs'] += 2
    if e0 is not None or e1 is not None:
        res['tags'] = ['crashed:' + type(e0 or e1).__name__]
        res['counters']['crashed'] = 1
        return res
    _, n_above = oracles.expected_crop(df, eff)
    nvalid = int(df['height'].notna().sum())
    for name in VARIANTS[desc.get('part', 0)::3] if 'part' in desc else VARIANTS:
        rounded = name in ('dt_height_int', 'height_float32')
        src, base = (df_round, base_round) if rounded else (df, base_plain)
        var = make_variant(scenes.rng_for(desc['s'], NUM, desc['i'], VARIANTS.index(name) + 1), src, name)
        ov, ev = twin.observe_run(var, prm)
        res['counters']['runs'] += 1
        res['evals'] += 1
        tags.add(name)
        if name.startswith('idx_') and not var.index.is_unique and n_above:
            tags.add('nonunique_labels_with_crop')
        if name.startswith('idx_') and not var.index.is_unique and sc.get('type0_with_height') and nvalid >= 2:
            tags.add('nonunique_labels_with_type0_rows_holding_a_height')
        if nvalid >= 2:
            res['nontrivial'].append(obs.case_hash(sc['rows'], prm, name))
        if ev is not None:
            oracles.V(viol, 'C10', 'variant frame raises', variant=name, with_msa=with_msa, **twin.exc_info(ev))
            continue
        d = obs.first_diff(base, ov)
        if d is not None:
            oracles.V(viol, 'C10', 'result differs from the plainly indexed frame', variant=name, with_msa=with_msa,
                      first_difference=list(d), msg_plain=base['msgs']['layers'], msg_variant=ov['msgs']['layers'])
    res['tags'] = sorted(tags)
    res['case'] = {'scene': sc, 'prm': prm}
    if desc['i'] % 29 == 0 and desc.get('part', 0) == 0:
        res['sample'] = pipeline.small_sample({'scene': sc, 'prm': prm}, {'variants': VARIANTS, 'msg': base_plain['msgs']['layers'],
                                                                          'hits_cropped': n_above})
    return res
