"""C01 - METAR-like message is always well-formed and obeys the ICAO layer selection."""
from . import _msg

ID, NUM, LEVEL = 'C01', 1, 'exploration'
RULE = ('Evaluation = one message returned by the real metar_msg(which) checked against the table it was '
        'built from (grammar NCD|NSC|1-3 groups, non-decreasing heights, 2nd>=SCT, 3rd>=BKN, every group '
        'is the code of a row with okta>=1 and base<MSA). Workloads: generated scenes x parameter sets '
        '(3 messages each), engineered flat-layer scenes with prescribed okta classes and MSA positions '
        '(below/at/just below/between/above) through the full pipeline, and a table-driven enumeration of '
        'ALL okta tables (0..8) up to n layers x MSA positions x flag fed to the real metar_msg after a '
        'real run. Non-trivial = the table has >=1 row (or hits were cropped); distinct = hash of '
        '(rows, parameters, which) resp. enumeration index.')
ASSUMPTIONS = ['table-driven cases inject the table/flag/MSA into a processed chunk through private attributes',
               'heights in [0, 1e5) ft; parameter leaves keep their documented meaning']
REQUIRED = ['msg:1groups', 'msg:2groups', 'msg:3groups', 'msg:NCD', 'msg:NSC', 'gt3_reportable',
            'zero_okta_below_reported', 'base_eq_msa', 'fam:flat', 'fam:generic', 'late_msa_edit']
EXHAUSTIVE = {'quick': 'all okta tables (0..8) of <=3 layers x 2 height sets x all MSA positions x flag (table-driven part only)',
              'thorough': 'all okta tables (0..8) of <=4 layers x 2 height sets x all MSA positions x flag (table-driven part only)'}
weight = _msg.weight


def plan(tier, seed):
    return _msg.plan(NUM, tier, seed)


def check(desc):
    return _msg.check(desc, ('C01',))
