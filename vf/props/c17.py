"""C17 - Significance flags implement the ICAO 1-3-5 rule for every okta sequence."""
import numpy as np
from .. import scenes, obs, oracles

ID, NUM, LEVEL = 'C17', 17, 'exploration'
RULE = ('(Short sequences are also given as tuple / ndarray / Series / deque and as one-shot iterators - a TypeError for the latter is not judged; one family is repeated in a worker under python -O.) ' 'Evaluation = one call of the real icao.significant_cloud on one okta sequence, compared with an '
        'independent fold (flag iff fewer than three flags so far and okta >= 1/3/5 for the 1st/2nd/3rd flag), '
        'length preserved, and flags of the sequence minus its last element equal to the flags of the parent '
        'sequence (tree walk, so every sequence is compared with its prefix). Workload: ALL sequences over okta '
        '0..8 up to length L (exhaustive), random sequences up to length 40, every sequence up to length 4 called twice with the returned list edited in place in between and given as numpy (un)signed integer scalars, interleaved with calls that fail on invalid input, the same with the ampycloud loggers at DEBUG level (plus sequences of 15-45 layers), and the in-situ calls made by the '
        'pipeline on generated scenes (contract attached with icontract). Non-trivial = length >= 2; distinct by '
        'construction (enumeration) resp. hash.')
ASSUMPTIONS = ['okta values are the integers 0..8']
REQUIRED = ['exhaustive_tree', 'random_long', 'in_situ', 'repeat_after_caller_edit', 'numpy_integer_types', 'other_containers_and_iterators', 'debug_logging']
LMAX = {'quick': 7, 'thorough': 8}
EXHAUSTIVE = {'quick': 'all okta sequences over 0..8 of length 1..7 (5 380 839 sequences)',
              'thorough': 'all okta sequences over 0..8 of length 1..8 (48 427 560 sequences)'}
TIMEOUT = {'quick': 1500, 'thorough': 6000}


def plan(tier, seed):
    out = []
    for a in range(9):
        for b in range(9):
            out.append({'fam': 'tree', 'root': [a, b], 'L': LMAX[tier], 's': seed, 'i': a * 9 + b})
    out.append({'fam': 'short', 's': seed, 'i': 100})
    out.append({'fam': 'short', 's': seed, 'i': 101, 'debuglog': True})
    out.append({'fam': 'short', 's': seed, 'i': 102, 'pyopt': True})          # once more under python -O
    for j in range(4 if tier == 'quick' else 32):
        out.append({'fam': 'random', 'n': 1500, 's': seed, 'i': 200 + j})
    for j in range(8 if tier == 'quick' else 64):
        out.append({'fam': 'insitu', 'n': 12, 's': seed, 'i': 300 + j})
    return out


def weight(d):
    return {'tree': 10.0, 'short': 8.0, 'random': 1.0, 'insitu': 3.0}[d['fam']]


def fold(oktas):
    out, n = [], 0
    for o in oktas:
        ok = n < 3 and o >= (1, 3, 5)[n]
        out.append(ok)
        n += ok
    return out


def _judge(seq, got, parent_flags, viol):
    exp = fold(seq)
    ok = True
    if not isinstance(got, list) or len(got) != len(seq):
        oracles.V(viol, 'C17', 'result does not hold one flag per layer', oktas=seq, got=repr(got)[:80])
        return False
    if [bool(x) for x in got] != exp:
        oracles.V(viol, 'C17', 'flags differ from the 1-3-5 fold', oktas=seq, got=[bool(x) for x in got], expected=exp)
        ok = False
    if parent_flags is not None and [bool(x) for x in got[:-1]] != parent_flags:
        oracles.V(viol, 'C17', 'flags of a prefix depend on the layers above it', oktas=seq,
                  got=[bool(x) for x in got], prefix_flags=parent_flags)
        ok = False
    return ok


def check(desc):
    from ampycloud import icao
    f = icao.significant_cloud
    viol = []
    n = 0
    if desc['fam'] == 'tree':
        L = desc['L']
        root = desc['root']
        g1 = f(root[:1])
        g2 = f(list(root))
        _judge(list(root), g2, [bool(x) for x in g1], viol)
        n += 1
        stack = [(list(root), [bool(x) for x in g2])]
        while stack:
            seq, fl = stack.pop()
            if len(seq) >= L:
                continue
            for o in range(9):
                s2 = seq + [o]
                g = f(s2)
                n += 1
                # fast path: compare without building witness structures
                if len(g) != len(s2) or g[:-1] != fl or bool(g[-1]) != (sum(fl) < 3 and o >= (1, 3, 5)[min(sum(fl), 2)]):
                    if len(viol) < 20:
                        _judge(s2, g, fl, viol)
                    stack.append((s2, fold(s2)))
                else:
                    stack.append((s2, [bool(x) for x in g]))
        return {'evals': n, 'nontrivial_n': n, 'nontrivial': [], 'tags': ['exhaustive_tree'], 'viol': viol,
                'counters': {'sequences_enumerated': n},
                'sample': {'workload': 'exhaustive tree', 'root': root, 'max_length': L,
                           'example': [root + [8, 0, 5], [bool(x) for x in f(root + [8, 0, 5])]]} if desc['i'] % 27 == 0 else None}
    if desc['fam'] == 'short' and desc.get('debuglog') and not desc.get('_inner'):
        # the same family with the ampycloud loggers at DEBUG level, plus long sequences (> 20 layers)
        from .. import env as _env
        with _env.debug_logging():
            out = check(dict(desc, _inner=True))
            rng = scenes.rng_for(desc['s'], NUM, 4242)
            for _ in range(300):
                k = int(rng.integers(15, 45))
                seq = [int(x) for x in rng.choice([0, 0, 1, 2, 2, 3, 4, 5, 8], k)]
                g = f(seq)
                out['evals'] += 1
                _judge(seq, g, None, out['viol'])
        out['tags'] = sorted(set(out['tags']) | {'debug_logging'})
        out['viol'] = out['viol'][:20]
        return out
    if desc['fam'] == 'short':
        import itertools
        import numpy as np
        # every sequence up to length 4: (1) called twice with the returned list edited in place in between
        # (a result must never be shared between calls), (2) given as numpy integer scalars / arrays
        for L in range(1, 5):
            for seq in itertools.product(range(9), repeat=L):
                seq = list(seq)
                g = f(seq)
                ok = _judge(seq, g, None, viol)
                n += 1
                if isinstance(g, list):
                    g.append(True)
                    g[0] = not g[0]
                g2 = f(list(seq))
                n += 1
                if not _judge(seq, g2, None, []) and len(viol) < 20:
                    oracles.V(viol, 'C17', 'result depends on an earlier call whose returned list was edited by the caller',
                              oktas=seq, got=[bool(x) for x in g2] if isinstance(g2, list) else repr(g2)[:60], expected=fold(seq))
                if isinstance(g2, list):
                    g2.clear()
                if L == 3 and seq[0] in (2, 5):
                    # a call that fails half-way (a record with a missing okta) must not influence later calls
                    for bad in ([5, None, 3], [seq[0], 'x'], [1, float('nan'), object()]):
                        try:
                            f(list(bad))
                        except Exception:      # noqa - invalid input, whatever is raised
                            pass
                        g4 = f(list(seq))
                        n += 1
                        if not _judge(seq, g4, None, []) and len(viol) < 20:
                            oracles.V(viol, 'C17', 'result depends on an earlier call that failed on invalid input', oktas=seq,
                                      failed_input=repr(bad), got=[bool(x) for x in g4] if isinstance(g4, list) else repr(g4)[:60],
                                      expected=fold(seq))
                if L <= 3 or seq[0] in (0, 6):
                    # the same oktas in other containers (a sequence is a sequence: tuple, array, Series, deque,
                    # one-shot iterators such as generators / map / iter)
                    import collections
                    import pandas as pd
                    for shape, mk in (('tuple', tuple), ('ndarray', np.array), ('Series', pd.Series), ('deque', collections.deque),
                                      ('generator', lambda q: (v for v in q)), ('iter', iter), ('map', lambda q: map(int, q)),
                                      ('reversed', lambda q: reversed(q[::-1]))):
                        try:
                            g5 = f(mk(list(seq)))
                        except TypeError:
                            if shape in ('generator', 'iter', 'map', 'reversed'):
                                continue          # an implementation may insist on a sized sequence: not judged
                            raise
                        n += 1
                        if not _judge(seq, g5, None, []) and len(viol) < 20:
                            oracles.V(viol, 'C17', 'flags depend on the container the oktas come in', container=shape, oktas=seq,
                                      got=[bool(x) for x in g5] if isinstance(g5, list) else repr(g5)[:60], expected=fold(seq))
                if L <= 3 or seq[0] in (1, 8):
                    for dt in (np.uint8, np.int8, np.uint16, np.int64, np.uint64):
                        arr = [dt(v) for v in seq]
                        with np.errstate(all='ignore'):
                            import warnings
                            with warnings.catch_warnings():
                                warnings.simplefilter('ignore')
                                g3 = f(arr)
                        n += 1
                        if not _judge(seq, g3, None, []) and len(viol) < 20:
                            oracles.V(viol, 'C17', 'flags depend on the integer type of the okta values', dtype=dt.__name__,
                                      oktas=seq, got=[bool(x) for x in g3] if isinstance(g3, list) else repr(g3)[:60], expected=fold(seq))
        for a in range(9):
            g = f([a])
            _judge([a], g, None, viol)
            n += 1
        g = f([])
        if g != []:
            oracles.V(viol, 'C17', 'empty sequence', got=repr(g))
        n += 1
        return {'evals': n, 'nontrivial_n': n - 10, 'nontrivial': [], 'tags': ['length_0_1', 'repeat_after_caller_edit', 'numpy_integer_types', 'other_containers_and_iterators', 'debug_logging'],
                'viol': viol[:20], 'counters': {'short_sequence_calls': n}}
    if desc['fam'] == 'random':
        rng = scenes.rng_for(desc['s'], NUM, desc['i'])
        nt = []
        smp = None
        for _ in range(desc['n']):
            k = int(rng.integers(9, 41))
            seq = [int(x) for x in rng.integers(0, 9, k)]
            if rng.uniform() < 0.5:       # bias towards low oktas so that the third flag comes late
                seq = [int(x) for x in rng.choice([0, 0, 1, 2, 2, 3, 4, 5, 8], k)]
            g = f(seq)
            _judge(seq, g, [bool(x) for x in f(seq[:-1])], viol)
            n += 1
            nt.append(obs.case_hash(seq))
            smp = {'workload': 'random', 'oktas': seq, 'flags': [bool(x) for x in g]}
        return {'evals': n, 'nontrivial': nt, 'tags': ['random_long'], 'viol': viol[:20], 'counters': {'random_sequences': n},
                'sample': smp if desc['i'] % 4 == 0 else None}
    # in situ: the calls the pipeline makes, observed through the icontract wrapper
    from .. import pipeline
    nt = []
    calls = 0
    for j in range(desc['n']):
        case = pipeline.materialise({'fam': 'generic', 's': desc['s'], 'p': NUM, 'i': desc['i'] * 1000 + j, 'k': {}})
        run = pipeline.execute(case, msgs=False)
        for okt, res in run.rec.of('significant_cloud'):
            calls += 1
            if len(okt) >= 2:
                nt.append(obs.case_hash(okt))
        viol += [b for b in run.rec.broken if b['prop'] == 'C17']
    return {'evals': calls, 'nontrivial': nt, 'tags': ['in_situ'] if calls else [], 'viol': viol[:20],
            'counters': {'in_situ_contract_evaluations': calls}}
