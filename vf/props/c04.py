"""C04 - Base height = configured percentile, inside the layer, never coded upward."""
import numpy as np
from .. import scenes, obs, pipeline, oracles

ID, NUM, LEVEL = 'C04', 4, 'exploration'
RULE = ('Evaluation = one table row recomputed from its member hits: min<=base<=max; base == np.percentile of the '
        'hits selected by the exclusion rule (fall-back to all hits when no more than MAX_HITS_OKTA0 non-excluded '
        'hits remain), time-ordered, most recent int(n*lookback/100) hits (all when that is 0) - to 1e-9 relative unless '
        'the look-back cut falls inside a group of equal time stamps (then inside the interval spanned by the '
        'choices among the tied hits); min/max exact; mean/std/thickness to 1e-9 rel; fluffiness finite >= 0; '
        'code digits == floor rule and 100*digits <= base; table sorted ascending. Workloads: '
        'generated scenes x percentile x look-back x exclusion subsets x LOWESS settings x row orders; '
        'engineered flat layers at the floating-point neighbours of coding boundaries; bimodal/chain families '
        'with several ceilometers (ties at the cut, exclusion fall-backs). Non-trivial = set with >= 2 distinct '
        'member heights; distinct = hash of (rows, parameters, which, set id).')
ASSUMPTIONS = ['membership is read from the per-hit id columns',
               'the exclusion fall-back follows the rule stated in the code comment (not enough hits left), '
               'which is stricter than the YAML comment (empty selection)']
REQUIRED = ['fam:exclfb', 'negative_base', 'lookback_lt_all', 'exclusion_used', 'exclusion_fallback', 'tie_at_cut', 'base_gt_10000',
            'base_near_coding_boundary', 'fam:boundary']
SIZES = {'quick': dict(generic=380, eng=160), 'thorough': dict(generic=9000, eng=3000)}
BOUNDARY_H = [100.0, 1999.97, 2000.0, 9999.98, 9999.999999, 10000.0, 10000.01, 10999.99, 11000.0, 12999.97,
              13000.0, 99999.0, 0.0, -0.0, 54.3, -0.5, -56.3, -100.0, -250.0, -5e-324]


def plan(tier, seed):
    z = SIZES[tier]
    out = []
    for i in range(z['generic']):
        out.append({'fam': 'generic', 's': seed, 'p': NUM, 'i': i, 'k': {'big': i % 11 == 0, 'rich': i % 3 == 0}})
    for i in range(z['eng']):
        fam = ['bimodal', 'chain', 'chain', 'bimodal'][i % 4]
        out.append({'fam': fam, 's': seed, 'p': NUM, 'i': 100000 + i,
                    'k': {'nce': 1 + i % 3, 'exclude': 'rand', 'third': i % 8 == 0}})
    nref = 17 * (2 if tier == 'quick' else 24)
    for i in range(nref):        # real-world reference scenes of the repository (perturbed), random parameters
        out.append({'fam': 'refdata', 's': seed, 'p': NUM, 'i': 700000 + i,
                    'k': {'file': i % 17, 'perturb': (i // 17) % 5, 'default_prms': i < 17}})
    for i in range(24 if tier == 'quick' else 400):        # simultaneous hits split by the look-back cut
        out.append({'fam': 'tiecut', 's': seed, 'p': NUM, 'i': 300000 + i, 'k': {'order': scenes.ORDERS[i % 4]}})
    for i in range(16 if tier == 'quick' else 300):        # exclusion fall-back decided on rows vs measurements
        out.append({'fam': 'exclfb', 's': seed, 'p': NUM, 'i': 400000 + i})
    for j, h in enumerate(BOUNDARY_H):
        for nb in (0, 1, 2):      # 0: exactly h, 1: next float below, 2: next float above
            out.append({'fam': 'boundary', 'h': h, 'nb': nb, 's': seed, 'p': NUM, 'i': 200000 + 3 * j + nb})
    return out


def boundary_case(desc):
    h = desc['h']
    if desc['nb'] == 1 and h > 0:
        h = float(np.nextafter(h, -np.inf))
    elif desc['nb'] == 2:
        h = float(np.nextafter(h, np.inf))
    rng = scenes.rng_for(desc['s'], NUM, desc['i'])
    rows = [['a', -float(t) * 15.0, h, 1] for t in range(30)]
    rows += [['b', -float(t) * 15.0 - 0.5, h, 1] for t in range(10)]
    sc = {'rows': scenes.order_rows(rng, rows, 'shuf'), 'names': ['a', 'b'], 'order': 'shuf', 'fam': 'boundary'}
    return {'scene': sc, 'prm': {'call': {'BASE_LVL_HEIGHT_PERC': float(rng.choice([0, 5, 50, 100]))}, 'glob': {}}}


def exclfb_case(desc):
    """One deck seen by an excluded instrument (many hits) and by a kept one whose few hits come as
    multi-hit measurements: kept ROWS vs kept MEASUREMENTS straddle MAX_HITS_OKTA0."""
    rng = scenes.rng_for(desc['s'], NUM, desc['i'])
    o0 = int(rng.choice([1, 2, 3, 5]))
    d = int(rng.integers(1, o0 + 1))                 # kept measurements (<= o0)
    extra = int(rng.integers(0, 3))                  # kept rows = d + extra  (may exceed o0)
    rows = [['b', -float(t) * 15.0, 1060.0 + float(rng.normal(0, 8)), 1] for t in range(30)]
    for m in range(d):
        dt = -7.0 - 30.0 * m
        rows.append(['a', dt, 960.0 + float(rng.normal(0, 3)), 1])
    for m in range(min(extra + (o0 + 1 - d if desc['i'] % 2 else 0), d)):
        rows.append(['a', -7.0 - 30.0 * m, 978.0 + float(rng.normal(0, 3)), 2])
    rows = scenes.order_rows(rng, scenes.dedupe(rows), str(rng.choice(scenes.ORDERS)))
    sc = {'rows': rows, 'names': ['a', 'b'], 'order': 'mixed', 'fam': 'exclfb'}
    return {'scene': sc, 'prm': {'call': {'EXCLUDE_FOR_BASE_HEIGHT_CALC': ['b'], 'MAX_HITS_OKTA0': o0,
                                          'BASE_LVL_HEIGHT_PERC': float(rng.choice([5, 50]))}, 'glob': {}}}


def check(desc):
    if desc['fam'] == 'boundary':
        case = boundary_case(desc)
    elif desc['fam'] == 'exclfb':
        case = exclfb_case(desc)
    else:
        case = pipeline.materialise(desc)
    run = pipeline.execute(case, msgs=False)
    res = {'evals': 0, 'nontrivial': [], 'counters': {'runs': 1}, 'case': case, 'viol': []}
    if run.exc is not None:
        res['counters']['crashed'] = 1
        res['tags'] = ['crashed:' + type(run.exc).__name__]
        return res
    viol, tags = [], set()
    e, nt = oracles.check_heights(run.chunk, viol, tags)
    res['evals'] = e
    d = run.chunk.data
    for w in obs.WHICH:
        ids = d[w[:-1] + '_id'].to_numpy().astype(int)
        for cid in set(ids[ids != -1].tolist()):
            if len(np.unique(d['height'].to_numpy()[ids == cid])) >= 2:
                res['nontrivial'].append(obs.case_hash(pipeline.case_digest(case), w, int(cid)))
    viol += [b for b in run.rec.broken if b['prop'] in ('C04',)]
    viol += [b for b in run.rec.broken if b['prop'] == 'C18' and 'height2code' in b['clause']
             and dict(b, prop='C04')]
    res['counters']['contract_evaluations'] = sum(run.rec.counts.get(k, 0) for k in
                                                  ('calc_base_height', 'get_fluffiness', 'height2code'))
    res['viol'] = [dict(v, prop='C04') if v['prop'] == 'C18' else v for v in viol if v['prop'] in ('C04', 'C18')][:20]
    res['tags'] = sorted(tags) + ['fam:' + desc['fam']]
    if desc['i'] % 89 == 0:
        res['sample'] = pipeline.small_sample(case, {'layers': run.chunk.layers[['height_base', 'height_min', 'height_max', 'code']].to_dict('records')})
    return res
