"""C18 - WMO conversions: okta binning, okta abbreviations and height flooring."""
import math
import numpy as np
from .. import scenes, obs, oracles

ID, NUM, LEVEL = 'C18', 18, 'exploration'
RULE = ('(The small deterministic families are repeated in a worker under python -O, where asserts and __debug__ blocks are stripped.) ' 'Evaluation = one argument of the real wmo.perc2okta / okta2code / height2code. perc2okta(100*n/m and '
        'n/m*100): 0 iff n=0, 8 iff n=m, else the integer nearest to 8n/m (exact integer arithmetic; either '
        'neighbour at an exact half) clipped to 1..7, non-decreasing in n, scalar == array form, independent of the numeric dtype of the input (8/16/32/64-bit (un)signed ints, float16/32/64), input array left untouched, unaffected by real pipeline runs made earlier in the process and by the logging level (DEBUG), values outside '
        '[0,100] (scalar or one array element) -> AmpycloudError. okta2code: table for 0..9, other ints and '
        'non-integer types -> AmpycloudError (numpy ints and bool observed, not judged). height2code: 3 digits, '
        'equals floor(h/100) up to 10000 ft and floor(h/1000)*10 above, 100*int(code) <= h, non-decreasing. '
        'Workload: ALL 0<=n<=m<=M (vectorised; scalar calls for m<=200), heights on a 0.5-ft grid over [0,1e5) '
        'plus +-1..3 ulp neighbours of every multiple of 100 ft (<=10000) and of 1000 ft, integers -2..11 and '
        'non-integer types. Distinct by construction (enumeration).')
ASSUMPTIONS = ['exact half-okta ties accept both neighbours (the documentation and numpy rounding disagree there)']
REQUIRED = ['after_pipeline_runs', 'debug_logging', 'perc2okta_dtypes', 'perc2okta_pairs', 'perc2okta_scalar', 'half_okta_tie', 'out_of_range', 'okta2code', 'height_grid',
            'height_boundary_neighbours'] + ['okta%d' % i for i in range(9)]
MMAX = {'quick': 3000, 'thorough': 10000}
EXHAUSTIVE = {'quick': 'all percentages n/m*100 with 0<=n<=m<=3000; 0.5-ft height grid over [0,1e5); ints -2..11',
              'thorough': 'all percentages n/m*100 with 0<=n<=m<=10000; 0.5-ft height grid over [0,1e5); ints -2..11'}


def plan(tier, seed):
    out = []
    M = MMAX[tier]
    nchunks = 32
    for j in range(nchunks):
        out.append({'fam': 'perc', 'lo': 1 + j, 'step': nchunks, 'M': M, 'i': j})
    out.append({'fam': 'okta2code', 'i': 100})
    out.append({'fam': 'dtypes', 'i': 102})
    out.append({'fam': 'after_pipeline', 'i': 103, 's': seed})
    out.append({'fam': 'hbound', 'i': 301, 'debuglog': True})
    out.append({'fam': 'perc', 'lo': 1, 'step': 37, 'M': min(M, 3000), 'i': 33, 'debuglog': True})
    out.append({'fam': 'range', 'i': 104, 's': seed, 'debuglog': True})
    out.append({'fam': 'range', 'i': 101, 's': seed})
    for j in range(40):
        out.append({'fam': 'hgrid', 'lo': j * 2500.0, 'hi': (j + 1) * 2500.0, 'i': 200 + j})
    out.append({'fam': 'hbound', 'i': 300})
    # the small deterministic families once more in a worker running under python -O
    out += [dict(d, i=d['i'] + 1000, pyopt=True) for d in out if d['fam'] in ('okta2code', 'dtypes', 'range', 'hbound')]
    out.append({'fam': 'perc', 'lo': 2, 'step': 41, 'M': min(M, 3000), 'i': 1033, 'pyopt': True})
    return out


def acceptable(n, m):
    if n == 0:
        return (0,)
    if n == m:
        return (8,)
    lo = (8 * n) // m
    rem = 8 * n - lo * m
    if 2 * rem < m:
        c = (lo,)
    elif 2 * rem > m:
        c = (lo + 1,)
    else:
        c = (lo, lo + 1)
    return tuple(sorted({min(max(x, 1), 7) for x in c}))


def check(desc):
    from ampycloud import wmo
    from ampycloud.errors import AmpycloudError
    if desc.get('debuglog') and not desc.get('_inner'):
        from .. import env as _env
        with _env.debug_logging():
            out = check(dict(desc, _inner=True))
        out['tags'] = sorted(set(out['tags']) | {'debug_logging'})
        return out
    viol, tags = [], set()
    n_ev = 0
    sample = None
    fam = desc['fam']
    if fam == 'perc':
        for m in range(desc['lo'], desc['M'] + 1, desc['step']):
            ns = np.arange(m + 1)
            for form, vals in (('100*n/m', 100 * ns / m), ('n/m*100', ns / m * 100)):
                keep = vals.copy()
                got = wmo.perc2okta(vals)
                n_ev += m + 1
                if not np.array_equal(vals, keep):
                    oracles.V(viol, 'C18', 'perc2okta modifies the array it is given', m=m, form=form)
                    vals = keep
                elif m % 97 == 0 and not np.array_equal(wmo.perc2okta(vals), got):
                    oracles.V(viol, 'C18', 'two calls on the same array disagree', m=m, form=form)
                if not (isinstance(got, np.ndarray) and got.shape == vals.shape and got.dtype.kind == 'i'):
                    oracles.V(viol, 'C18', 'perc2okta array form: wrong type/shape', m=m, got=repr(got)[:80])
                    continue
                if (np.diff(got) < 0).any():
                    k = int(np.where(np.diff(got) < 0)[0][0])
                    oracles.V(viol, 'C18', 'perc2okta decreases with n', m=m, n=k + 1, form=form,
                              okta_before=int(got[k]), okta_after=int(got[k + 1]))
                lo = (8 * ns) // m
                rem = 8 * ns - lo * m
                c1 = np.where(2 * rem > m, lo + 1, lo)
                c2 = np.where(2 * rem == m, lo + 1, c1)
                c1 = np.clip(c1, 1, 7)
                c2 = np.clip(c2, 1, 7)
                c1[0] = c2[0] = 0
                c1[m] = c2[m] = 8
                if (c1 != c2).any():
                    tags.add('half_okta_tie')
                badn = np.where((got != c1) & (got != c2))[0]
                for n in badn[:3]:
                    if len(viol) < 30:
                        oracles.V(viol, 'C18', 'perc2okta value', n=int(n), m=m, form=form, perc=float(vals[n]),
                                  got=int(got[n]), expected=list(acceptable(int(n), m)))
                for o in set(got.tolist()):
                    tags.add('okta%d' % o)
                if m <= 200 and form == 'n/m*100':
                    tags.add('perc2okta_scalar')
                    for n in range(m + 1):
                        s = wmo.perc2okta(float(vals[n]))
                        n_ev += 1
                        if not (len(s) == 1 and int(s[0]) == int(got[n])):
                            oracles.V(viol, 'C18', 'scalar and array forms disagree', n=n, m=m,
                                      scalar=np.asarray(s).tolist(), array=int(got[n]))
            if sample is None:
                sample = {'workload': 'perc2okta', 'm': m, 'oktas_for_n_0..m': wmo.perc2okta(100 * np.arange(m + 1) / m).tolist()[:40]}
        tags.add('perc2okta_pairs')
    elif fam == 'dtypes':
        # integral percentages given as arrays / scalars of every common numeric dtype, lists and tuples
        tags.add('perc2okta_dtypes')
        ref = None
        for m in (1, 2, 4, 5, 8, 10, 16, 20, 25, 50, 100):
            ns = np.arange(m + 1)
            percs = (100 * ns) // m
            exact = (100 * ns) % m == 0
            base = wmo.perc2okta(percs[exact].astype(float))
            for dt in (np.uint8, np.int8, np.uint16, np.int16, np.int32, np.int64, np.uint64, np.float32, np.float16):
                arr = percs[exact].astype(dt)
                keep = arr.copy()
                got = wmo.perc2okta(arr)
                n_ev += len(arr)
                if not np.array_equal(got, base):
                    oracles.V(viol, 'C18', 'perc2okta depends on the dtype of the input array', dtype=np.dtype(dt).name, m=m,
                              percs=arr.tolist(), got=np.asarray(got).tolist(), expected=base.tolist())
                if not np.array_equal(arr, keep):
                    oracles.V(viol, 'C18', 'perc2okta modifies its input array', dtype=np.dtype(dt).name)
                for v, e in zip(arr[:6], base[:6]):
                    g1 = wmo.perc2okta(v) if isinstance(v, (int, float)) else wmo.perc2okta(np.array([v]))
                    n_ev += 1
                    if int(np.asarray(g1)[0]) != int(e):
                        oracles.V(viol, 'C18', 'perc2okta of a one-element array of another dtype', dtype=np.dtype(dt).name,
                                  val=float(v), got=int(np.asarray(g1)[0]), expected=int(e))
        sample = {'workload': 'perc2okta dtypes', 'dtypes': ['uint8', 'int8', 'uint16', 'int16', 'int32', 'int64', 'uint64', 'float32', 'float16']}
    elif fam == 'after_pipeline':
        # history: the conversions are used by real runs first (nearly full layers, buffers engaged), then queried
        import ampycloud
        import warnings
        from .. import pipeline
        tags.add('after_pipeline_runs')
        rng = scenes.rng_for(desc['s'], NUM, desc['i'])
        with warnings.catch_warnings():
            warnings.simplefilter('ignore')
            for T, c, h8 in ((60, 59, 1), (40, 39, 2), (80, 78, 5), (60, 57, 5), (30, 29, 1), (20, 20, 0), (50, 48, 2)):
                sc = scenes.flat_layers_scene(rng, [{'h': 1000.0, 'count': c}], nt=T)
                try:
                    ampycloud.run(scenes.frame(sc), prms={'MAX_HOLES_OKTA8': h8})
                except Exception:      # noqa - decided by C08
                    pass
        for m in (20, 30, 40, 50, 60, 80):
            ns = np.arange(m + 1)
            vals = ns / m * 100
            arr = wmo.perc2okta(vals.copy())
            for n in range(m + 1):
                s1 = wmo.perc2okta(float(vals[n]))
                n_ev += 1
                acc = acceptable(n, m)
                if int(s1[0]) not in acc or int(arr[n]) not in acc:
                    oracles.V(viol, 'C18', 'perc2okta value after pipeline runs in the same process', n=n, m=m,
                              scalar=int(s1[0]), array=int(arr[n]), expected=list(acc))
    elif fam == 'okta2code':
        table = {0: 'NCD', 1: 'FEW', 2: 'FEW', 3: 'SCT', 4: 'SCT', 5: 'BKN', 6: 'BKN', 7: 'BKN', 8: 'OVC', 9: None}
        for k in range(-2, 12):
            n_ev += 1
            try:
                got = wmo.okta2code(k)
                if k not in table:
                    oracles.V(viol, 'C18', 'okta2code accepts a value outside 0..9', val=k, got=got)
                elif got != table[k]:
                    oracles.V(viol, 'C18', 'okta2code table', val=k, got=got, expected=table[k])
            except AmpycloudError:
                if k in table:
                    oracles.V(viol, 'C18', 'okta2code refuses a valid okta', val=k)
            except Exception as e:      # noqa
                oracles.V(viol, 'C18', 'okta2code raises another exception type', val=k, exc=type(e).__name__)
        for bad in (3.0, 2.5, '3', None, np.float64(4.0), np.float32(1.0), [3], (3,), 3 + 0j):
            n_ev += 1
            try:
                got = wmo.okta2code(bad)
                oracles.V(viol, 'C18', 'okta2code accepts a non-integer', val=repr(bad), got=got)
            except AmpycloudError:
                pass
            except Exception as e:      # noqa
                oracles.V(viol, 'C18', 'okta2code raises another exception type', val=repr(bad), exc=type(e).__name__)
        observed = {}
        for odd in (True, False, np.int64(3), np.int8(8)):
            try:
                observed[repr(odd)] = wmo.okta2code(odd)
            except Exception as e:      # noqa - observed only
                observed[repr(odd)] = type(e).__name__
        sample = {'workload': 'okta2code', 'observed_not_judged': observed}
        tags.add('okta2code')
    elif fam == 'range':
        bads = [-1e-9, -1, 100.0000001, 101, 1e9, float(np.nextafter(100, 200)), float(np.nextafter(0, -1))]
        for b in bads:
            for arg in (b, np.array([50.0, b]), np.array([b, 0.0, 100.0])):
                n_ev += 1
                try:
                    got = wmo.perc2okta(arg)
                    oracles.V(viol, 'C18', 'perc2okta accepts a value outside [0,100]', val=np.asarray(arg).tolist(),
                              got=np.asarray(got).tolist())
                except AmpycloudError:
                    pass
                except Exception as e:      # noqa
                    oracles.V(viol, 'C18', 'perc2okta raises another exception type', val=np.asarray(arg).tolist(),
                              exc=type(e).__name__)
        for good in (0, 100, 0.0, 100.0, 1e-300, float(np.nextafter(100, 0)), 50):
            n_ev += 1
            try:
                got = wmo.perc2okta(good)
                exp = 0 if good == 0 else (8 if good == 100 else None)
                if exp is not None and int(got[0]) != exp:
                    oracles.V(viol, 'C18', 'perc2okta edge', val=good, got=int(got[0]))
                if good == 1e-300 and int(got[0]) != 1 or good == float(np.nextafter(100, 0)) and int(got[0]) != 7:
                    oracles.V(viol, 'C18', 'perc2okta next to an edge', val=good, got=int(got[0]))
            except Exception as e:      # noqa
                oracles.V(viol, 'C18', 'perc2okta refuses a value inside [0,100]', val=good, exc=type(e).__name__)
        tags.add('out_of_range')
    elif fam in ('hgrid', 'hbound'):
        if fam == 'hgrid':
            hs = np.arange(desc['lo'], desc['hi'], 0.5)
            tags.add('height_grid')
        else:
            b = [100.0 * k for k in range(0, 101)] + [1000.0 * k for k in range(10, 100)] + [99999.0]
            hs = []
            for x in b:
                y = x
                lo = [x]
                for _ in range(3):
                    y = np.nextafter(y, -np.inf)
                    lo.append(y)
                y = x
                for _ in range(3):
                    y = np.nextafter(y, np.inf)
                    lo.append(y)
                hs += [float(v) for v in lo if 0 <= v < 1e5]
                hs += [x - 0.0004, x - 0.04, x + 0.0004, x - 0.5]
            hs = np.array(sorted(set(h for h in hs if 0 <= h < 1e5)))
            tags.add('height_boundary_neighbours')
        prev = -1
        for h in hs:
            h = float(h)
            c = wmo.height2code(h)
            n_ev += 1
            exp = math.floor(h / 100) if h <= 10000 else math.floor(h / 1000) * 10
            if not (isinstance(c, str) and len(c) == 3 and c.isdigit()):
                oracles.V(viol, 'C18', 'height2code is not three digits', h=h, got=repr(c))
                continue
            if int(c) != exp or 100 * int(c) > h:
                if len(viol) < 30:
                    oracles.V(viol, 'C18', 'height2code is not the floor / exceeds the input', h=h, got=c, expected=exp)
            if int(c) < prev:
                oracles.V(viol, 'C18', 'height2code decreases', h=h, got=c, previous=prev)
            prev = int(c)
        sample = {'workload': 'height2code', 'h': float(hs[len(hs) // 2]), 'code': wmo.height2code(float(hs[len(hs) // 2]))}
    return {'evals': n_ev, 'nontrivial_n': n_ev, 'nontrivial': [], 'tags': sorted(tags), 'viol': viol[:30],
            'counters': {'calls_' + fam: n_ev}, 'sample': sample if desc['i'] % 8 == 0 else None}
