"""C06 - Groups, and layers split from one group, respect the minimum separation."""
import numpy as np
from .. import scenes, obs, pipeline, oracles

ID, NUM, LEVEL = 'C06', 6, 'exploration'
RULE = ('Evaluation = one pair of adjacent reported bases. Groups: for consecutive group bases b[k]-b[k-1] >= '
        'MIN_SEP_VALS[bin of b[k]] (bin = number of MIN_SEP_LIMS strictly below; at an exact limit the smaller '
        'adjacent value), tolerance 0, whatever the exclusion list. Layers: for a group whose final ncomp >= 2 '
        'equals the raw number of mixture components chosen (recorded by a wrapper on best_gmm; nothing '
        're-merged) and with an empty exclusion list, pairwise distance of its layers\' bases >= min_sep(group '
        'base). Workloads: generated scenes; chains of 3-6 close flat layers seen by 1-3 biased ceilometers '
        '(repeated merges) x exclusion subsets; bi-/tri-modal and converging thick groups x look-back x '
        'percentile x 1-3 separation bins x all row orders; engineered tie-at-the-look-back-cut scenes (simultaneous hits of several ceilometers, an outlier in the time step split by the cut). Rising deck under a flat one with the limit of two separation bins placed between the group base taken on the rows as listed and the one in time order. Non-trivial = pair closer than 2*min_sep; distinct = '
        'hash of (rows, parameters, level, pair index).')
ASSUMPTIONS = ['groups with a re-merge (final ncomp < raw) or with exclusion active are outside the layer clause and are only counted']
REQUIRED = ['global_base_height_settings_differ', 'fam:sepprobe', 'sepprobe_below_threshold_merged', 'merge', 'chained_merges', 'split_raw_eq_final', 'gt1_sep_bin', 'merge_with_exclusion',
            'split_lookback_lt100_coincident_stamps', 'group_base_on_rows_and_on_time_order_in_different_bins'] + \
           ['split_lookback_lt100_' + o for o in scenes.ORDERS]
SIZES = {'quick': dict(generic=200, chain=260, bimodal=520, tiecut=160), 'thorough': dict(generic=5000, chain=5000, bimodal=9000, tiecut=3000)}


def plan(tier, seed):
    z = SIZES[tier]
    out = []
    for i in range(z['generic']):
        out.append({'fam': 'generic', 's': seed, 'p': NUM, 'i': i, 'k': {'rich': i % 3 == 0}})
    for i in range(z['chain']):
        out.append({'fam': 'chain', 's': seed, 'p': NUM, 'i': 100000 + i,
                    'k': {'exclude': 'rand' if i % 2 else None, 'order': scenes.ORDERS[i % 4]}})
    for i in range(z['bimodal']):
        out.append({'fam': 'bimodal', 's': seed, 'p': NUM, 'i': 200000 + i,
                    'k': {'order': scenes.ORDERS[i % 4], 'converge': [True, 'diverge', False][i % 3], 'third': i % 5 == 0,
                          'nce': 1 + (i // 4) % 3, 'lookback': [100, 50, 20, 35.5, 10][(i // 4) % 5],
                          'coincident': (i // 2) % 2 == 0, 'near': i % 2 == 0,
                          'perc': [0, 5, 5, 50, None][(i // 8) % 5]}})
    nref = 17 * (2 if tier == 'quick' else 24)
    for i in range(nref):        # real-world reference scenes of the repository (perturbed), random parameters
        out.append({'fam': 'refdata', 's': seed, 'p': NUM, 'i': 700000 + i,
                    'k': {'file': i % 17, 'perturb': (i // 17) % 5, 'default_prms': i < 17}})
    j = 0
    for ms in (250.0, 100.0, 1000.0, 323.0):             # distance of two flat decks = min_sep - eps
        for eps in (0, 'ulp', '-ulp', 1e-9, 1e-6, 1e-3, 2e-3, 0.01, 0.5, -1e-3):
            for base in ((1000.0, 9700.0) if tier == 'quick' else (1000.0, 9700.0, 333.3, 20000.0, 0.0)):
                out.append({'fam': 'sepprobe', 's': seed, 'p': NUM, 'i': 500000 + j,
                            'k': {'min_sep': ms, 'eps': eps, 'base': base, 'order': scenes.ORDERS[j % 4], 'perc': [5, 50, 0][j % 3]}})
                j += 1
    for i in range(24 if tier == 'quick' else 400):
        # the base of the whole group, taken on the rows as listed or in time order, falls either side of a
        # MIN_SEP_LIMS entry (rising deck, look-back < 100, rows not time-ascending)
        out.append({'fam': 'binstraddle', 's': seed, 'p': NUM, 'i': 600000 + i})
    for i in range(z['tiecut']):
        out.append({'fam': 'tiecut', 's': seed, 'p': NUM, 'i': 300000 + i, 'k': {'order': scenes.ORDERS[i % 4]}})
    return out


def _base(hs, lookback, perc):
    k = int(len(hs) * lookback / 100) or len(hs)
    return float(np.percentile(np.asarray(hs[len(hs) - k:]), perc))


def bin_straddle_case(desc):
    rng = scenes.rng_for(desc['s'], NUM, desc['i'])
    i = desc['i']
    n = int(rng.integers(60, 100))
    h0 = float(rng.choice([2900.0, 1400.0, 7000.0]))
    rise = float(rng.uniform(150, 300))
    gap = float(rng.uniform(520, 680))
    rows = []
    for t in range(n):
        dt = -15.0 * (n - 1 - t)
        rows.append(['C1', dt, h0 + rise * t / (n - 1), 1])                       # rising deck
        rows.append(['C2', dt - [0.0, 0.4][i % 2], h0 + rise + gap + (t % 4), 1])     # flat deck above
    order = ['desc', 'shuf', 'desc', 'mixed'][i % 4] if 'mixed' in scenes.ORDERS else ['desc', 'shuf'][i % 2]
    rows = scenes.order_rows(rng, rows, order)
    lookback = float([50, 30, 20][i % 3])
    perc = float([5, 0, 10][(i // 3) % 3])
    b_rows = _base([r[2] for r in rows], lookback, perc)
    b_time = _base([r[2] for r in sorted(rows, key=lambda r: r[1])], lookback, perc)
    lim = (b_rows + b_time) / 2
    sc = {'rows': rows, 'names': ['C1', 'C2'], 'order': order, 'fam': 'binstraddle', 'bases_rows_time': [b_rows, b_time]}
    call = {'MIN_SEP_VALS': [200.0, gap + rise + 150.0], 'MIN_SEP_LIMS': [lim], 'BASE_LVL_LOOKBACK_PERC': lookback,
            'BASE_LVL_HEIGHT_PERC': perc}
    return {'scene': sc, 'prm': {'call': call, 'glob': {}}}


def check(desc):
    case = bin_straddle_case(desc) if desc['fam'] == 'binstraddle' else pipeline.materialise(desc)
    if desc['i'] % 6 in (0, 1) and desc['fam'] in ('bimodal', 'tiecut', 'chain'):
        # the global dictionary holds other base-height settings; the per-call dict names the packaged values
        case['prm']['glob'].update({'BASE_LVL_LOOKBACK_PERC': 35, 'BASE_LVL_HEIGHT_PERC': 60})
        if desc['fam'] == 'bimodal':
            case['prm']['call'].update({'BASE_LVL_LOOKBACK_PERC': 100, 'BASE_LVL_HEIGHT_PERC': 5})
    run = pipeline.execute(case, msgs=False)
    res = {'evals': 0, 'nontrivial': [], 'counters': {'runs': 1}, 'case': case, 'viol': []}
    if run.exc is not None:
        res['counters']['crashed'] = 1
        res['tags'] = ['crashed:' + type(run.exc).__name__]
        return res
    viol, tags = [], set()
    ch = run.chunk
    n1, c1 = oracles.check_group_separation(ch, viol, tags)
    n2, c2 = oracles.check_layer_separation(ch, run.rec.of('best_gmm'), viol, tags)
    res['evals'] = n1 + n2
    for j in range(c1):
        res['nontrivial'].append(obs.case_hash(pipeline.case_digest(case), 'g', j))
    for j in range(c2):
        res['nontrivial'].append(obs.case_hash(pipeline.case_digest(case), 'l', j))
    for nb, na, _ in run.rec.of('merge'):
        if na < nb:
            tags.add('merge')
            if run.eff['EXCLUDE_FOR_BASE_HEIGHT_CALC'] != []:
                tags.add('merge_with_exclusion')
        if nb - na >= 2:
            tags.add('chained_merges')
    if 'split_raw_eq_final' in tags and run.eff['BASE_LVL_LOOKBACK_PERC'] < 100:
        tags.add('split_lookback_lt100_' + str(case['scene'].get('order')))
        d = ch.data[['ceilo', 'dt']].drop_duplicates()
        if d['dt'].duplicated().any():
            tags.add('split_lookback_lt100_coincident_stamps')
    if desc['fam'] == 'sepprobe' and ch.n_groups == 1 and ch.n_slices == 2:
        tags.add('sepprobe_below_threshold_merged')
    if desc['fam'] == 'binstraddle' and ch.n_groups == 1:
        b_rows, b_time = case['scene']['bases_rows_time']
        lim = case['prm']['call']['MIN_SEP_LIMS'][0]
        if b_rows < lim < b_time and abs(float(ch.groups['height_base'].iloc[0]) - b_time) < 1e-6:
            tags.add('group_base_on_rows_and_on_time_order_in_different_bins')
    if case['prm']['glob']:
        tags.add('global_base_height_settings_differ')
    res['counters'].update({'group_pairs': n1, 'layer_pairs': n2, 'gmm_fits_observed': len(run.rec.of('best_gmm'))})
    res['viol'] = [v for v in viol if v['prop'] == 'C06'][:20]
    res['tags'] = sorted(tags) + ['fam:' + desc['fam']]
    if desc['i'] % 61 == 0:
        res['sample'] = pipeline.small_sample(case, {'group_bases': ch.groups['height_base'].tolist(),
                                                     'layer_bases': ch.layers['height_base'].tolist(),
                                                     'group_ncomp': ch.groups['ncomp'].tolist(),
                                                     'raw_ncomp': run.rec.of('best_gmm')})
    return res
