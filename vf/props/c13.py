"""C13 - Concurrent or interleaved chunks with per-call parameters do not interfere."""
import os
import sys
import copy
import time
import hashlib
import itertools
import threading
import random
import warnings
import numpy as np
from .. import scenes, obs, oracles, pipeline

ID, NUM, LEVEL = 'C13', 13, 'exploration'
RULE = ('Evaluation = one interleaving / one thread schedule of 2-4 chunks, each with its own data and per-call '
        'parameters while the global parameters hold other values (valid-but-different, or, when the per-call '
        'dict names every leaf, poison alternating with other valid values between any two stage calls); every chunk must end with exactly the canonical observation (tables, per-hit data, '
        'messages, bit-wise) of the same chunk processed alone. (a) Single-threaded stage interleavings: ALL 252 '
        'interleavings of [construct, find_slices, find_groups, find_layers, messages] of two chunks (pairs with '
        'different data, and pairs with the SAME data but different parameters), and interleavings of three chunks '
        'at the granularity [construct+slices, groups, layers+messages] (1680, all in thorough, sampled in quick). '
        '(b) Threads calling run(data_k, prms=prms_k) under a controlled scheduler: sys.monitoring LINE events '
        'restricted to ampycloud code objects hand control to a seeded scheduler that lets exactly one thread '
        'proceed to its next ampycloud source line - in half of the schedules also to its next call / return from a C function, so that the gap between two library calls on one line can be pre-empted - (PCT-style priorities with d random change points, a '
        'random-walk mode switching with probability p at every yield point, and a mode that demotes the running thread right after a library call returned to ampycloud code, and atomicity probes that park one thread at a static yield site - a source line or the return of a given library call into a given ampycloud line, each distinct site weighted equally - until all other threads have finished, or - two-site probes, swept systematically over the site pairs of the small functions - until a second thread stops at another site of the same function, after which the first one runs to completion), so a schedule is a replayable sequence of '
        'thread choices; plus pairs of large chunks (> 2000 hits in one slice: size-dependent paths), where every ampycloud function seen calling an API that touches process-global state (global RNG, warnings filters, NumPy error state, pandas options, locale, environment) gets all ordered two-site probes around those calls. Evidence lists line events, context switches, distinct schedule hashes and the function '
        'pairs observed overlapping. Non-trivial = the chunks differ in data or parameters; distinct = '
        'interleaving index resp. schedule hash.')
ASSUMPTIONS = ['calls from ampycloud code into process-global state (global NumPy/Python RNG, warnings filters, NumPy error state, pandas options, locale, environment) are watched for and only GUIDE the two-site probes (counter global_state_api_call_sites, 0 on the pinned tree); they are never a verdict by themselves',
               'no pre-emption inside C extensions (numpy / scikit-learn calls are atomic steps of a schedule)',
               'the reference of a chunk is its digest when processed alone in a fresh process with the same global parameters installed']
REQUIRED = ['pair_interleavings_252', 'pair_same_data_different_prms', 'pair_shared_list_objects', 'global_changed_between_stages', 'references_from_fresh_processes', 'triple_interleavings', 'threads_pct', 'threads_random_walk', 'threads_call_level', 'threads_call_level',
            'two_threads_in_same_stage', 'two_threads_in_ncomp_from_gmm', 'threads_big_chunks_gt2000_hits', 'poisoned_global', 'distinct_schedules_100']
SIZES = {'quick': dict(pairs=4, triples=100, sched=320, big=8, big_n=11), 'thorough': dict(pairs=40, triples=1680 * 5, sched=6000, big=16, big_n=40)}
EXHAUSTIVE = {'quick': 'all C(10,5)=252 stage interleavings of two chunks, for each of the pairs (interleaving part only)',
              'thorough': 'all 252 stage interleavings of two chunks per pair and all 1680 coarse interleavings of three chunks per triple'}
TIMEOUT = {'quick': 1500, 'thorough': 7000}
STAGES = ['construct', 'find_slices', 'find_groups', 'find_layers', 'messages']


def plan(tier, seed):
    z = SIZES[tier]
    out = []
    allp = list(itertools.combinations(range(10), 5))
    for p in range(z['pairs']):
        for j in range(0, 252, 42):
            out.append({'fam': 'pair', 'pair': p, 'lo': j, 'n': 42, 's': seed, 'i': p * 10 + j // 42})
    per = 25
    for j in range(z['triples'] // per):
        out.append({'fam': 'triple', 'lo': (j * per) % 1680, 'n': per, 'set': (j * per) // 1680, 's': seed, 'i': 1000 + j})
    per = 16
    for j in range(z['sched'] // per):
        out.append({'fam': 'threads', 'lo': j * per, 'n': per, 's': seed, 'i': 2000 + j})
    for j in range(z['big']):
        # two large chunks (> 2000 hits in one slice): size-dependent code paths, and two-site probes aimed at the
        # ampycloud functions seen calling an API that touches process-global state
        out.append({'fam': 'threads_global', 'lo': 100000 + j * 64, 'n': z['big_n'], 's': seed, 'i': 3000 + j, 'shard': j, 'nshards': z['big']})
    return out


def weight(d):
    return {'pair': 20.0, 'triple': 18.0, 'threads': 12.0, 'threads_global': 30.0}[d['fam']]


# ------------------------------------------------------------------------------------------------
# cases: (frame, per-call prms) + the global installed for the whole experiment

GMM_VARIANTS = [
    {'scores': 'BIC', 'mode': 'delta', 'min_prob': 1.0, 'delta_mul_gain': 0.95, 'rescale_0_to_x': 100.0},
    {'scores': 'BIC', 'mode': 'delta', 'min_prob': 1.0, 'delta_mul_gain': 0.2, 'rescale_0_to_x': 100.0},
    {'scores': 'AIC', 'mode': 'prob', 'min_prob': 1.0, 'delta_mul_gain': 1.0, 'rescale_0_to_x': 100.0},
    {'scores': 'BIC', 'mode': 'delta', 'min_prob': 1.0, 'delta_mul_gain': 1.0, 'rescale_0_to_x': None},
]
SEP_VARIANTS = [([250.0, 1000.0], [10000.0]), ([100.0], []), ([600.0, 100.0], [2300.0]), ([50.0, 900.0, 3000.0], [1500.0, 9000.0])]


def make_cases(seed, key, n, same_data=False):
    """n chunks with distinct per-call parameters (and distinct data unless same_data)."""
    rng = scenes.rng_for(seed, NUM, key, 5)
    cases = []
    base_sc = None
    for k in range(n):
        if same_data and base_sc is not None:
            sc = base_sc
        else:
            kind = (key + k) % 4
            if kind == 3:
                sc = scenes.quantised_scene(rng, nce=1 + k % 2)
            elif kind == 0:
                sc = scenes.bimodal_group_scene(rng, third=k % 2 == 0, n=50, order='shuf')
            elif kind == 1:
                sc = scenes.close_chain_scene(rng, nl=4, nce=2)
            else:
                sc = scenes.gen_scene(rng, maxrows=160, nce=2)
            base_sc = base_sc or sc
        vals, lims = SEP_VARIANTS[(key + k) % len(SEP_VARIANTS)]
        call = {'MIN_SEP_VALS': list(vals), 'MIN_SEP_LIMS': list(lims),
                'LAYERING_PRMS': {'min_okta_to_split': [2, 0, 4][k % 3], 'gmm_kwargs': copy.deepcopy(GMM_VARIANTS[(key + k) % 4])},
                'BASE_LVL_HEIGHT_PERC': float([5, 50, 0, 20][(key + k) % 4]),
                'BASE_LVL_LOOKBACK_PERC': float([100, 50, 100, 30][(key + 2 * k) % 4]),
                'MAX_HITS_OKTA0': int([3, 0, 5][(key + k) % 3]), 'LOWESS': {'frac': [0.35, 0.8, 0.1][k % 3], 'it': [3, 0][k % 2]},
                'GROUPING_PRMS': {'height_pad_perc': float([10, 0, 40][(key + k) % 3])},
                'MSA': [None, 9000.0, None, 4000.0][(key + k) % 4]}
        if same_data and cases:
            # same data, same base-height settings: only the separation / mixture-model settings differ,
            # so that values derived from the data (base heights ...) coincide between the chunks
            first = cases[0]['call']
            for kk in ('BASE_LVL_HEIGHT_PERC', 'BASE_LVL_LOOKBACK_PERC', 'MAX_HITS_OKTA0', 'LOWESS', 'GROUPING_PRMS', 'MSA'):
                call[kk] = copy.deepcopy(first[kk])
        cases.append({'scene': sc, 'call': call})
    return cases


def make_big_cases(seed, key):
    """Two chunks of more than 2000 hits each, all in one slice / group / layer (three instruments, 12-s sampling)."""
    rng = scenes.rng_for(seed, NUM, key, 6)
    cases = []
    for k in range(2):
        base = float(rng.choice([900.0, 2400.0, 6100.0]))
        nt = 690 + 25 * k + int(rng.integers(0, 10))
        rows = []
        for ci, c in enumerate(['a', 'b', 'q1']):
            for t in range(nt):
                rows.append([c, -12.0 * t - 0.25 * ci, float(np.round(base + 60.0 * np.sin(t / (40.0 + 9 * k)) + rng.normal(0, 25.0), 1)), 1])
        sc = {'rows': scenes.dedupe(rows), 'names': ['a', 'b', 'q1'], 'order': 'none', 'fam': 'big'}
        call = {'MSA': None, 'LOWESS': {'frac': [0.35, 0.6][k], 'it': 3}, 'MIN_SEP_VALS': [250.0, 1000.0], 'MIN_SEP_LIMS': [10000.0],
                'BASE_LVL_LOOKBACK_PERC': float([100, 40][k]), 'LAYERING_PRMS': {'min_okta_to_split': 9}}
        cases.append({'scene': sc, 'call': call})
    return cases


def apply_global(gtag):
    import ampycloud
    from ampycloud import dynamic
    from .c12 import poison
    ampycloud.reset_prms()
    if gtag == 'poisoned_global':
        poison(dynamic.AMPYCLOUD_PRMS)
        return
    dynamic.AMPYCLOUD_PRMS['MIN_SEP_VALS'] = [777.0, 1234.0]
    dynamic.AMPYCLOUD_PRMS['LOWESS']['frac'] = 0.55
    dynamic.AMPYCLOUD_PRMS['MAX_HOLES_OKTA8'] = 2
    dynamic.AMPYCLOUD_PRMS['SLICING_PRMS']['distance_threshold'] = 0.15
    dynamic.AMPYCLOUD_PRMS['LAYERING_PRMS']['gmm_kwargs']['delta_mul_gain'] = 0.7
    # a non-empty exclusion list that the per-call dicts do not override: instruments some chunks hold, others not
    dynamic.AMPYCLOUD_PRMS['EXCLUDE_FOR_BASE_HEIGHT_CALC'] = ['b', 'q1', 'c']


def fresh_references(cases, gtag):
    """Digest of every case processed ALONE IN A FRESH PROCESS (same global parameters installed)."""
    import json
    import subprocess
    from .. import env as _env
    out = []
    for c in cases:
        r = subprocess.run([sys.executable, '-m', 'vf.props.c13', '--ref'], input=json.dumps({'case': c, 'gtag': gtag}),
                           capture_output=True, text=True, env=_env.child_env(), cwd=_env.VERIF_DIR, timeout=600)
        line = [x for x in r.stdout.splitlines() if x.startswith('DIGEST ')]
        if r.returncode != 0 or not line:
            raise RuntimeError('reference process failed: ' + (r.stderr or r.stdout)[-400:])
        out.append(line[-1].split(' ', 1)[1])
    return out


def install_global(key, cases):
    """The global set differs from every per-call set.  Even keys: poison + per-call dicts naming every leaf."""
    import ampycloud
    from ampycloud import dynamic
    if key % 2 == 0:
        for c in cases:
            c['call'] = obs.effective({'call': c['call'], 'glob': {}})
            if scenes.empties_chunk(c['scene'], c['call']):
                c['call']['MSA'] = None
        apply_global('poisoned_global')
        return 'poisoned_global'
    apply_global('different_global')
    for c in cases:
        eff = copy.deepcopy(dynamic.AMPYCLOUD_PRMS)
        if scenes.empties_chunk(c['scene'], dict(eff, **{k: v for k, v in c['call'].items() if not isinstance(v, dict)})):
            c['call']['MSA'] = None
    return 'different_global'


class Pipe:
    """One chunk advanced stage by stage."""

    def __init__(self, case):
        self.case = case
        self.df = scenes.frame(case['scene'])
        self.chunk = None
        self.msgs = None
        self.pos = 0

    def step(self, name):
        from ampycloud.data import CeiloChunk
        if name == 'construct':
            call = copy.deepcopy(self.case['call'])
            if getattr(self, 'shared_lists', None) is not None:
                call.update(self.shared_lists)            # same list objects in every chunk's per-call dict
            self.chunk = CeiloChunk(self.df, prms=call)
        elif name == 'messages':
            self.msgs = [self.chunk.metar_msg(w) for w in obs.WHICH]
        else:
            getattr(self.chunk, name)()

    def digest(self):
        o = obs.observe(self.chunk, msgs=False)
        o['msgs'] = self.msgs
        return obs.ohash(o)


def isolated(case):
    p = Pipe(case)
    for s in STAGES:
        p.step(s)
    return p.digest()


def check_interleavings(desc):
    import ampycloud
    viol, tags = [], set()
    n_ch = 2 if desc['fam'] == 'pair' else 3
    key = desc['pair'] if desc['fam'] == 'pair' else 100 + desc['set']
    same = desc['fam'] == 'pair' and key % 2 == 1
    cases = make_cases(desc['s'], key, n_ch, same_data=same)
    shared = desc['fam'] == 'pair' and key % 4 == 2
    if shared:
        # the usual {**common, ...} pattern: both per-call dicts hold the SAME list objects; the first chunk is
        # made of excluded instruments only (exclusion fall-back for every set), the second of both kinds
        rng = scenes.rng_for(desc['s'], NUM, key, 9)
        sc_a = scenes.close_chain_scene(rng, nl=3, nce=2)
        sc_b = scenes.close_chain_scene(rng, nl=4, nce=3)
        cases[0]['scene'], cases[1]['scene'] = sc_a, sc_b
        for c in cases:
            c['call'].update({'MSA': None, 'BASE_LVL_LOOKBACK_PERC': 100.0})
    evals = 0
    nontriv = 0
    with warnings.catch_warnings():
        warnings.simplefilter('ignore')
        gtag = install_global(key, cases)
        tags.add(gtag)
        try:
            def fresh_common():
                return {'EXCLUDE_FOR_BASE_HEIGHT_CALC': ['a', 'b'], 'MIN_SEP_VALS': [250.0, 1000.0], 'MIN_SEP_LIMS': [10000.0]}
            if shared and gtag != 'poisoned_global':
                for c in cases:
                    c['call'].update(copy.deepcopy(fresh_common()))
            elif shared:
                for c in cases:
                    c['call'].update(copy.deepcopy(fresh_common()))
            ref_same_process = [isolated(c) for c in cases]
            apply_global(gtag)
            ref = fresh_references(cases, gtag)
            tags.add('references_from_fresh_processes')
            for k_, (a_, b_) in enumerate(zip(ref_same_process, ref)):
                if a_ != b_:
                    oracles.V(viol, 'C13', 'processing a chunk alone gives another result after other chunks were processed in the same process',
                              chunk=k_, same_data=same, global_mode=gtag)
            if desc['fam'] == 'pair':
                seqs = [STAGES, STAGES]
                allp = list(itertools.combinations(range(10), 5))[desc['lo']:desc['lo'] + desc['n']]
                orders = []
                for comb in allp:
                    o = [1] * 10
                    for x in comb:
                        o[x] = 0
                    orders.append(o)
            else:
                coarse = [['construct', 'find_slices'], ['find_groups'], ['find_layers', 'messages']]
                seqs = [coarse] * 3
                allo = sorted(set(itertools.permutations([0, 0, 0, 1, 1, 1, 2, 2, 2])))
                orders = [list(o) for o in allo[desc['lo']:desc['lo'] + desc['n']]]
            def flip_global(step):
                # per-call dicts name every leaf here: the live global may hold anything at any time
                from ampycloud import dynamic
                from .c12 import poison
                ampycloud.reset_prms()
                if step % 2:
                    dynamic.AMPYCLOUD_PRMS['MIN_SEP_VALS'] = [777.0, 1234.0]
                    dynamic.AMPYCLOUD_PRMS['LOWESS']['frac'] = 0.9
                    dynamic.AMPYCLOUD_PRMS['MAX_HITS_OKTA0'] = 9
                    dynamic.AMPYCLOUD_PRMS['BASE_LVL_HEIGHT_PERC'] = 77
                    dynamic.AMPYCLOUD_PRMS['LAYERING_PRMS']['gmm_kwargs']['delta_mul_gain'] = 0.1
                    dynamic.AMPYCLOUD_PRMS['MSA'] = 1234.5
                else:
                    poison(dynamic.AMPYCLOUD_PRMS)
            for order in orders:
                pipes = [Pipe(c) for c in cases]
                if shared:
                    common = fresh_common()
                    for p_ in pipes:
                        p_.shared_lists = common
                try:
                    for step_no, who in enumerate(order):
                        if gtag == 'poisoned_global':
                            flip_global(step_no)
                            tags.add('global_changed_between_stages')
                        p = pipes[who]
                        st = seqs[who][p.pos]
                        for s in ([st] if isinstance(st, str) else st):
                            p.step(s)
                        p.pos += 1
                    got = [p.digest() for p in pipes]
                    if gtag == 'poisoned_global':
                        flip_global(0)
                except Exception as e:      # noqa
                    oracles.V(viol, 'C13', 'interleaved processing raises', exc=type(e).__name__, msg=str(e)[:160],
                              order=order, global_mode=gtag)
                    continue
                evals += 1
                nontriv += 1
                for k, (g, r) in enumerate(zip(got, ref)):
                    if g != r:
                        oracles.V(viol, 'C13', 'chunk result differs from processing it alone', chunk=k, order=order,
                                  same_data=same, global_mode=gtag, prms=[c['call'].get('MIN_SEP_VALS') for c in cases],
                                  msgs=pipes[k].msgs)
                        break
                if len(viol) >= 5:
                    break
        finally:
            ampycloud.reset_prms()
    if desc['fam'] == 'pair':
        tags.add('pair_interleavings_252')
        if same:
            tags.add('pair_same_data_different_prms')
        if shared:
            tags.add('pair_shared_list_objects')
    else:
        tags.add('triple_interleavings')
    return {'evals': evals, 'nontrivial_n': nontriv, 'nontrivial': [], 'tags': sorted(tags), 'viol': viol[:5],
            'counters': {'interleavings_%s' % desc['fam']: evals},
            'sample': {'workload': desc['fam'] + ' interleavings', 'first_order': orders[0] if orders else None,
                       'global_mode': gtag, 'same_data': same, 'isolated_digests': ref} if desc['i'] % 6 == 0 else None}


# ------------------------------------------------------------------------------------------------
# controlled thread scheduler on sys.monitoring LINE events

TOOL = 3
_tl = threading.local()
_SCHED = [None]
_MON_ON = [False]


class Sched:
    def __init__(self, seed, nthreads, mode, depth=4, est_steps=6000, p_switch=0.02):
        self.rng = random.Random(seed)
        self.cv = threading.Condition()
        self.mode = mode
        self.prio = {}
        self.current = None
        self.steps = 0
        self.switches = 0
        self.trace = hashlib.sha256()
        self.change = set(self.rng.sample(range(1, est_steps), depth)) if mode == 'pct' else set()
        self.p_switch = p_switch
        self.finished = set()
        self.n = nthreads
        self.registered = 0
        self.where = {}
        self.overlap = set()
        self.dead = False
        self.call_level = False
        self.park_k, self.park_site, self.park_done = None, None, False
        self.park2_site, self.park2_done = None, False

    def register(self, k):
        with self.cv:
            self.prio[k] = self.rng.random() + 1.0
            if getattr(self, 'park_first', None) == k:
                self.prio[k] = 10.0          # the probed thread runs first, up to its parking site
            self.registered += 1
            self.cv.notify_all()
            while self.registered < self.n:
                self.cv.wait(60)
            if self.current is None:
                self._pick()
            while self.current != k and not self.dead:
                self.cv.wait(60)

    def _pick(self):
        alive = [k for k in self.prio if k not in self.finished]
        new = max(alive, key=lambda k: self.prio[k]) if alive else None
        if new != self.current:
            self.switches += 1
            self.trace.update(('%d:%s;' % (self.steps, new)).encode())
        self.current = new
        self.cv.notify_all()

    def yield_point(self, k, fn, site=None):
        with self.cv:
            self.steps += 1
            self.where[k] = fn
            if site is not None:
                if self.mode != 'park':
                    SITES[site] = SITES.get(site, 0) + 1
                elif k == self.park_k and site == self.park_site and not self.park_done:
                    # atomicity probe: this thread stops here until every other thread has finished its whole run
                    # (or, two-site probe, until another thread reaches the second site)
                    self.park_done = True
                    self.prio[k] = -1.0
                elif self.park2_site is not None and self.park_done and not self.park2_done and k != self.park_k \
                        and site == self.park2_site:
                    # two-site probe: the second thread stops inside the same function, the first one resumes and
                    # runs to completion, then the second one goes on
                    self.park2_done = True
                    self.prio[self.park_k] = 20.0
            for kk, v in self.where.items():
                if kk != k and kk not in self.finished:
                    self.overlap.add(tuple(sorted((fn, v))))
            if self.mode == 'pct':
                if self.steps in self.change:
                    self.prio[k] = self.rng.random()          # below every initial priority
            elif self.mode == 'ret':
                # pre-empt right after a library call returned to ampycloud code, and let the others run on
                if fn.startswith('return:') and self.rng.random() < self.p_switch:
                    self.prio[k] = min(self.prio.values()) - 1.0
            elif self.mode == 'park':
                pass                              # priorities only change at the parking site
            elif self.rng.random() < self.p_switch:
                for kk in self.prio:
                    self.prio[kk] = self.rng.random()
            self._pick()
            t0 = time.time()
            while self.current != k and not self.dead:
                self.cv.wait(30)
                if time.time() - t0 > 900:
                    self.dead = True
                    self.cv.notify_all()

    def finish(self, k):
        with self.cv:
            self.finished.add(k)
            self.where.pop(k, None)
            self._pick()


SITES = {}        # static yield sites discovered so far in this process: id -> hits


def global_probe_plan():
    """Two-site probes for every ampycloud function seen calling into process-global state (global NumPy / Python
    RNG, warnings filters, NumPy error state, pandas options, locale, environment ...): all ordered pairs of the
    source lines around those calls, for either thread being the parked one; earlier-then-later pairs first."""
    out = []
    for fn in sorted(GLOBAL_CALLERS):
        lines = sorted(GLOBAL_CALLERS[fn])
        sites = []
        for x in SITES:
            if x.startswith('line:') and site_function(x) == fn:
                ln = int(x.rsplit(':', 1)[1])
                if any(a - 3 <= ln <= a + 4 for a in lines):
                    sites.append((ln, x))
        sites = [x for _, x in sorted(sites)][:12]
        pairs = [(a, b) for ia, a in enumerate(sites) for ib, b in enumerate(sites) if ia < ib] + \
                [(a, b) for ia, a in enumerate(sites) for ib, b in enumerate(sites) if ia >= ib]
        for a, b in pairs:
            for pk in (0, 1):
                out.append((a, b, pk))
    return out


def site_function(site):
    """The ampycloud function a static site belongs to."""
    kind, rest = site.split(':', 1)
    if kind == 'return':
        return rest.split('@', 1)[1].rsplit(':', 1)[0]
    return rest.rsplit(':', 1)[0]


def _line_cb(code, line):
    k = getattr(_tl, 'k', None)
    s = _SCHED[0]
    if k is not None and s is not None:
        s.yield_point(k, code.co_name, 'line:%s:%d' % (code.co_name, line))


def _call_cb(code, off, callable_, arg0):
    # yield points before every call made from ampycloud code and after every return from a C function:
    # library calls (numpy / scikit-learn / pandas) are atomic steps, the gaps between them are not
    k = getattr(_tl, 'k', None)
    s = _SCHED[0]
    if k is not None and s is not None:
        api = _global_api_name(callable_)
        if api is not None:
            GLOBAL_CALLERS.setdefault(code.co_name, {})[sys._getframe(1).f_lineno] = api
    if k is not None and s is not None and s.call_level:
        # also yield when the (Python) callee returns to ampycloud: e.g. between est.fit(X) and est.labels_
        fn = getattr(callable_, '__func__', callable_)
        co = getattr(fn, '__code__', None)
        if co is not None and co not in _RET_CODES and '/ampycloud/' not in co.co_filename:
            _RET_CODES.add(co)
            try:
                sys.monitoring.set_local_events(TOOL, co, sys.monitoring.events.PY_RETURN)
            except Exception:      # noqa - best effort
                pass
        s.yield_point(k, code.co_name, 'call:%s:%d' % (code.co_name, off))


_RET_CODES = set()
GLOBAL_CALLERS = {}       # ampycloud function -> {source line: API name} of calls into process-global state
_API = {}


def _api_table():
    if _API:
        return _API
    import locale
    import logging
    import pandas as pd
    objs = {'warnings.catch_warnings': warnings.catch_warnings, 'warnings.simplefilter': warnings.simplefilter,
            'warnings.filterwarnings': warnings.filterwarnings, 'warnings.resetwarnings': warnings.resetwarnings,
            'numpy.seterr': np.seterr, 'numpy.errstate': np.errstate, 'numpy.set_printoptions': np.set_printoptions,
            'numpy.printoptions': np.printoptions, 'pandas.set_option': pd.set_option, 'pandas.option_context': pd.option_context,
            'pandas.reset_option': pd.reset_option, 'locale.setlocale': locale.setlocale, 'os.putenv': os.putenv,
            'os.chdir': os.chdir, 'logging.disable': logging.disable, 'logging.basicConfig': logging.basicConfig,
            'sys.setrecursionlimit': sys.setrecursionlimit, 'time.tzset': getattr(time, 'tzset', None)}
    for k, v in objs.items():
        if v is not None:
            _API[id(v)] = k
    return _API


def _global_api_name(c):
    self_ = getattr(c, '__self__', None)
    if self_ is not None:
        if self_ is np.random.mtrand._rand:
            return 'numpy.random.' + getattr(c, '__name__', '?')
        if self_ is random._inst:
            return 'random.' + getattr(c, '__name__', '?')
        if self_ is os.environ and getattr(c, '__name__', '') in ('__setitem__', '__delitem__', 'update', 'pop', 'setdefault', 'clear'):
            return 'os.environ.' + c.__name__
    try:
        return _api_table().get(id(c))
    except Exception:      # noqa
        return None


def _ret_cb(code, off, retval):
    k = getattr(_tl, 'k', None)
    s = _SCHED[0]
    if k is not None and s is not None and s.call_level:
        fr = sys._getframe(1).f_back
        caller = fr.f_code if fr is not None else None
        if caller is not None and '/ampycloud/' in caller.co_filename:      # returning INTO ampycloud code
            s.yield_point(k, 'return:' + code.co_name, 'return:%s@%s:%d' % (code.co_name, caller.co_name, fr.f_lineno))


def _start_cb(code, off):
    fn = code.co_filename
    if '/ampycloud/' in fn and not fn.endswith('logger.py'):
        ev = sys.monitoring.events
        sys.monitoring.set_local_events(TOOL, code, ev.LINE | ev.CALL)
    return sys.monitoring.DISABLE


def monitoring_on():
    if _MON_ON[0]:
        return
    mon = sys.monitoring
    mon.use_tool_id(TOOL, 'verif-c13')
    mon.register_callback(TOOL, mon.events.PY_START, _start_cb)
    mon.register_callback(TOOL, mon.events.LINE, _line_cb)
    mon.register_callback(TOOL, mon.events.CALL, _call_cb)
    mon.register_callback(TOOL, mon.events.C_RETURN, _call_cb)
    mon.register_callback(TOOL, mon.events.PY_RETURN, _ret_cb)
    mon.set_events(TOOL, mon.events.PY_START)
    _MON_ON[0] = True


def check_threads(desc):
    import ampycloud
    viol, tags = [], set()
    evals = 0
    hashes = []
    counters = {'line_events': 0, 'context_switches': 0, 'schedules': 0}
    overlap_all = set()
    parked_sites = set()
    warnings.simplefilter('ignore')          # process-wide: catch_warnings is not thread-safe
    key = desc['i']
    big = desc['fam'] == 'threads_global'
    nthreads = 2 if big else 2 + key % 3
    cases = make_big_cases(desc['s'], key) if big else make_cases(desc['s'], 500 + key, nthreads, same_data=(key % 4 == 1))
    n_disc = 3 if big else 6
    gplan = None
    if big:
        tags.add('threads_big_chunks_gt2000_hits')
    gtag = install_global(key, cases)
    tags.add(gtag)
    sample = None
    try:
        ref = fresh_references(cases, gtag)
        tags.add('references_from_fresh_processes')
        apply_global(gtag)
        dfs = [scenes.frame(c['scene']) for c in cases]
        monitoring_on()
        for j in range(desc['n']):
            sidx = desc['lo'] + j
            mode = 'pct' if sidx % 2 == 0 else 'walk'
            if sidx % 4 == 3:
                mode = 'ret'
            park = j >= n_disc and len(SITES) > 0          # the first schedules of a worker discover the static sites
            if park:
                mode = 'park'
            sc = Sched(desc['s'] * 1000003 + sidx, nthreads, mode, depth=2 + sidx % 4,
                       est_steps=2500 * nthreads, p_switch=[0.003, 0.02, 0.1][sidx % 3] if mode != 'ret' else [0.01, 0.03, 0.08][sidx % 3])
            sc.call_level = sidx % 4 >= 2 or park  # half of the schedules also yield around every call
            if park:
                names = sorted(SITES)
                rets = [x for x in names if x.startswith('return:')]
                pool = rets if (rets and sidx % 3 != 0) else names
                # systematic sweep: consecutive probes of consecutive workers walk through the sorted site list
                sc.park_site = pool[((desc['i'] - 2000) * 10 + (j - 6)) * 7919 % len(pool)] if pool is rets \
                    else pool[sc.rng.randrange(len(pool))]
                if os.environ.get('VERIF_C13_SITE') in SITES:         # debugging aid: probe one given site
                    sc.park_site = os.environ['VERIF_C13_SITE']
                sc.park_k = sidx % nthreads
                if sidx % 3 == 2:
                    # two-site probe inside one (small) function: systematic sweep over functions and site pairs
                    fsites = {}
                    for x in names:
                        fsites.setdefault(site_function(x), []).append(x)
                    small = sorted(f for f, v in fsites.items() if 2 <= len(v) <= 14)
                    if small:
                        q = (desc['i'] - 2000) * 10 + (j - 6)
                        fs = fsites[small[q % len(small)]]
                        r_ = q // len(small)
                        sc.park_site = fs[r_ % len(fs)]
                        sc.park2_site = fs[(r_ // len(fs) + r_) % len(fs)]
                        tags.add('threads_two_site_probe')
                if big:
                    if gplan is None:
                        gplan = global_probe_plan()
                        counters['global_state_api_call_sites'] = sum(len(v) for v in GLOBAL_CALLERS.values())
                        if GLOBAL_CALLERS:
                            tags.add('ampycloud_calls_global_state_api')
                    if gplan:
                        q = desc['shard'] + (j - n_disc) * desc['nshards']
                        if q >= len(gplan):
                            break
                        sc.park_site, sc.park2_site, sc.park_k = gplan[q]
                        tags.add('threads_global_state_api_probe')
                parked_sites.add(sc.park_site)
            if sc.call_level:
                sc.change = set(sc.rng.sample(range(1, 9000 * nthreads), 2 + sidx % 6)) if mode == 'pct' else set()
                tags.add('threads_call_level')
            sc.park_first = sc.park_k if park else None
            _SCHED[0] = sc
            out = [None] * nthreads
            errs = [None] * nthreads

            def work(k):
                _tl.k = k
                sc.register(k)
                try:
                    ch = ampycloud.run(dfs[k], prms=copy.deepcopy(cases[k]['call']))
                    msgs = [ch.metar_msg(w) for w in obs.WHICH]
                    _tl.k = None
                    sc.finish(k)
                    o = obs.observe(ch, msgs=False)
                    o['msgs'] = msgs
                    out[k] = obs.ohash(o)
                except Exception as e:      # noqa
                    errs[k] = e
                    _tl.k = None
                    sc.finish(k)
            ths = [threading.Thread(target=work, args=(k,), daemon=True) for k in range(nthreads)]
            for t in ths:
                t.start()
            for t in ths:
                t.join(300)
            _SCHED[0] = None
            if any(t.is_alive() for t in ths) or sc.dead:
                return {'evals': evals, 'nontrivial': hashes, 'tags': sorted(tags), 'viol': viol,
                        'counters': counters, 'harness_error': 'scheduler watchdog fired (threads still alive)'}
            evals += 1
            counters['schedules'] += 1
            counters['line_events'] += sc.steps
            counters['context_switches'] += sc.switches
            hashes.append(sc.trace.hexdigest()[:16])
            overlap_all |= sc.overlap
            tags.add({'pct': 'threads_pct', 'walk': 'threads_random_walk', 'ret': 'threads_preempt_after_library_call',
                      'park': 'threads_park_at_static_site'}[mode])
            if mode == 'park' and sc.park_done:
                counters['park_probes_reached'] = counters.get('park_probes_reached', 0) + 1
            if mode == 'park' and sc.park2_done:
                counters['two_site_probes_reached'] = counters.get('two_site_probes_reached', 0) + 1
            for k in range(nthreads):
                if errs[k] is not None:
                    oracles.V(viol, 'C13', 'run() raises under a thread schedule', thread=k, exc=type(errs[k]).__name__,
                              msg=str(errs[k])[:160], schedule_seed=sidx, mode=mode, global_mode=gtag)
                elif out[k] != ref[k]:
                    oracles.V(viol, 'C13', 'chunk result under threads differs from processing it alone', thread=k,
                              schedule_seed=sidx, mode=mode, n_threads=nthreads, switches=sc.switches,
                              global_mode=gtag, gmm_kwargs=[c['call'].get('LAYERING_PRMS', {}).get('gmm_kwargs') for c in cases],
                              park_site=sc.park_site, park2_site=sc.park2_site)
            if sample is None:
                sample = {'workload': 'threads', 'n_threads': nthreads, 'mode': mode, 'line_events': sc.steps,
                          'context_switches': sc.switches, 'schedule_hash': hashes[-1],
                          'overlapping_function_pairs': sorted('%s|%s' % p for p in sc.overlap)[:12]}
            if len(viol) >= 5:
                break
    finally:
        _SCHED[0] = None
        ampycloud.reset_prms()
    stage_fns = {'find_slices', 'find_groups', 'find_layers', 'metarize', '_merge_close_groups'}
    if any(a == b and a in stage_fns for a, b in overlap_all):
        tags.add('two_threads_in_same_stage')
    if ('ncomp_from_gmm', 'ncomp_from_gmm') in overlap_all:
        tags.add('two_threads_in_ncomp_from_gmm')
    counters['distinct_overlapping_function_pairs'] = len(overlap_all)
    counters['static_yield_sites_discovered'] = len(SITES)
    counters['static_return_sites_discovered'] = len([x for x in SITES if x.startswith('return:')])
    return {'evals': evals, 'nontrivial': hashes, 'tags': sorted(tags), 'viol': viol[:5], 'counters': counters,
            'sample': sample if desc['i'] % 5 == 0 else None}


def check(desc):
    if desc['fam'] in ('threads', 'threads_global'):
        return check_threads(desc)
    return check_interleavings(desc)


def finalize(agg, tier, seed):
    hs = set()
    for r in agg['results'].values():
        if r.get('desc', {}).get('fam') in ('threads', 'threads_global'):
            hs.update(r.get('nontrivial', []))
    agg['counters']['distinct_schedule_hashes'] = len(hs)
    if len(hs) >= 100:
        agg['tags']['distinct_schedules_100'] = len(hs)
    return []


if __name__ == '__main__' and '--ref' in sys.argv:
    import json
    from .. import env as _env
    _env.setup()
    warnings.simplefilter('ignore')
    _job = json.loads(sys.stdin.read())
    apply_global(_job['gtag'])
    print('DIGEST ' + isolated(_job['case']))
