"""Shared workload of C01 (message well-formed, ICAO selection) and C02 (nothing suppressed)."""
import itertools
import numpy as np
import pandas as pd

from .. import scenes, obs, pipeline, oracles

SIZES = {'quick': dict(generic=600, flat=300, tables_n=3), 'thorough': dict(generic=12000, flat=4000, tables_n=4)}
HSETS = {'low': [1070.0, 2570.0, 4070.0, 5570.0], 'high': [9950.0, 10030.0, 10980.0, 12990.0]}


def msa_positions(n):
    pos = [None, ['below'], ['above']]
    for i in range(n):
        pos.append(['at', i])
        pos.append(['justbelow', i])
        pos.append(['ulpabove', i])
        pos.append(['tinyabove', i])
        pos.append(['ulpbelow', i])
        if i < n - 1:
            pos.append(['between', i])
    return pos


def plan(num, tier, seed):
    z = SIZES[tier]
    out = []
    for i in range(z['generic']):
        out.append({'fam': 'generic', 's': seed, 'p': num, 'i': i, 'k': {'big': i % 7 == 0}})
    # engineered flat layers through the real pipeline: okta tuples x MSA positions
    rng = scenes.rng_for(seed, num, 0, 99)
    combos = []
    for n in (1, 2, 3, 4, 5):
        tuples = list(itertools.product([0, 1, 2, 3, 4, 5, 6, 8], repeat=n)) if n <= 3 else None
        for _ in range(z['flat'] // 5):
            if tuples is not None:
                okt = list(tuples[int(rng.integers(len(tuples)))])
            else:
                okt = [int(x) for x in rng.choice([0, 1, 2, 3, 5, 6, 8], n)]
            pos = msa_positions(n)
            m = pos[int(rng.integers(len(pos)))]
            combos.append({'oktas': okt, 'msa': m, 'buffer': float(rng.choice([0, 700, 1500, 4000])),
                           'h0': float(rng.choice([1000.0, 1070.0, 8570.0])),
                           'nce': int(rng.choice([1, 2])), 'order': str(rng.choice(scenes.ORDERS))})
    # classes that must be observed are engineered explicitly
    combos += [
        {'oktas': [2, 2, 2, 6], 'msa': None}, {'oktas': [1, 3, 5, 8, 8], 'msa': ['above']},
        {'oktas': [0, 4], 'msa': None}, {'oktas': [0, 0, 5], 'msa': ['above']},
        {'oktas': [3, 8], 'msa': ['at', 1], 'buffer': 1500.0}, {'oktas': [8], 'msa': ['at', 0], 'buffer': 0.0},
        {'oktas': [1, 2, 8], 'msa': None}, {'oktas': [2, 1, 1, 5], 'msa': None},
        {'oktas': [4, 8], 'msa': ['below'], 'buffer': 10000.0}, {'oktas': [4, 8], 'msa': ['below'], 'buffer': 0.0},
        {'oktas': [0, 0], 'msa': None}, {'oktas': [0], 'msa': ['below'], 'buffer': 0.0},
        {'oktas': [0, 0], 'msa': ['above']},
        {'oktas': [0], 'msa': ['below'], 'buffer': 0.0, 'o0': 2}, {'oktas': [0, 0], 'msa': ['below'], 'buffer': 100.0, 'o0': 4, 'nce': 2},
        {'oktas': [1], 'msa': ['below'], 'buffer': 0.0, 'o0': 5}, {'oktas': [1], 'msa': ['below'], 'buffer': 0.0, 'o0': 4},
        {'oktas': [5, 8], 'msa': ['justbelow', 1], 'h0': 1070.0},
        {'oktas': [8], 'msa': ['justbelow', 0], 'h0': 10698.0},
        {'oktas': [3, 6], 'msa': ['tinyabove', 1], 'h0': 1070.0}, {'oktas': [6], 'msa': ['ulpabove', 0], 'h0': 9999.95},
        {'oktas': [2, 8], 'msa': ['ulpbelow', 1], 'h0': 2500.0},
        {'oktas': [8], 'msa': None, 'h0': -0.0}, {'oktas': [8], 'msa': None, 'h0': -0.0, 'prm_over': {'BASE_LVL_HEIGHT_PERC': 100.0}},
        {'oktas': [5], 'msa': None, 'h0': -0.0, 'prm_over': {'BASE_LVL_HEIGHT_PERC': 50.0}, 'nce': 2}, {'oktas': [3, 8], 'msa': ['above'], 'h0': -0.0, 'nce': 2},
    ]
    for j, k in enumerate(combos):
        out.append({'fam': 'flat', 's': seed, 'p': num, 'i': 100000 + j, 'k': k})
    nref = 17 * (2 if tier == 'quick' else 24)
    for i in range(nref):        # real-world reference scenes of the repository (perturbed), random parameters
        out.append({'fam': 'refdata', 's': seed, 'p': num, 'i': 700000 + i,
                    'k': {'file': i % 17, 'perturb': (i // 17) % 5, 'default_prms': i < 17}})
    for i in range(10 if tier == 'quick' else 150):
        out.append({'fam': 'late_msa_edit', 's': seed, 'p': num, 'i': 600000 + i})
    # table-driven: every okta table up to n layers x MSA positions x flag, real metar_msg
    for n in range(0, z['tables_n'] + 1):
        parts = 1 if n < 3 else (8 if n == 3 else 64)
        for part in range(parts):
            for hs in HSETS:
                out.append({'fam': 'tables', 'n': n, 'part': part, 'parts': parts, 'hset': hs,
                            's': seed, 'p': num, 'i': 200000 + n * 1000 + part})
    return out


def weight(desc):
    if desc['fam'] == 'tables':
        return 9 ** desc['n'] * 2.5e-3 / desc['parts'] + 0.3
    return 0.25


def _msa_value(m, hs, spacing):
    if m is None:
        return None
    if m[0] == 'below':
        return hs[0] - 500.0 if hs else 100.0
    if m[0] == 'above':
        return hs[-1] + 500.0 if hs else 5000.0
    if m[0] == 'between':
        return (hs[m[1]] + hs[m[1] + 1]) / 2
    if m[0] == 'at':
        return hs[m[1]]
    if m[0] == 'justbelow':
        return hs[m[1]] - 20.0
    if m[0] == 'ulpabove':
        return float(np.nextafter(hs[m[1]], np.inf))
    if m[0] == 'tinyabove':
        return hs[m[1]] * (1 + 4e-6) + 1e-4
    if m[0] == 'ulpbelow':
        return float(np.nextafter(hs[m[1]], -np.inf))
    raise ValueError(m)


_CHUNK = None


def _template_chunk():
    global _CHUNK
    if _CHUNK is None:
        sc = scenes.flat_layers_scene(scenes.rng_for(0, 0, 0), [{'h': 1000.0, 'count': 20}])
        _CHUNK = obs.run(scenes.frame(sc), {'call': {}, 'glob': {}})
    return _CHUNK


def check_tables(desc, props):
    """Real metar_msg() on every okta table of n layers (table state injected at the quiescent
    point after a real run; flags/codes computed with the real icao/wmo functions)."""
    from ampycloud import icao, wmo
    import copy
    n = desc['n']
    hs = HSETS[desc['hset']][:n]
    chunk = copy.deepcopy(_template_chunk())
    cols = list(chunk.layers.columns)
    viol, tags = [], set()
    evals = 0
    first = None
    all_tuples = list(itertools.product(range(9), repeat=n))
    mine = all_tuples[desc['part']::desc['parts']]
    data = pd.DataFrame({'ceilo': pd.array(['a'] * max(n, 1), dtype=pd.StringDtype()),
                         'dt': -np.arange(max(n, 1), dtype=float), 'height': hs if n else [np.nan],
                         'type': [1] * n if n else [0], 'layer_id': list(range(n)) if n else [-1],
                         'slice_id': list(range(n)) if n else [-1], 'group_id': list(range(n)) if n else [-1]})
    chunk._data = data
    for okt in mine:
        sig = icao.significant_cloud(list(okt))
        tab = pd.DataFrame({c: [None] * n for c in cols})
        tab['okta'] = np.array(okt, dtype=int)
        tab['height_base'] = np.array(hs, dtype=float)
        tab['code'] = [wmo.okta2code(int(o)) + wmo.height2code(h) for o, h in zip(okt, hs)]
        tab['significant'] = np.array(sig, dtype=bool)
        tab['cluster_id'] = np.arange(n, dtype=int)
        chunk._layers = tab
        levels = ('layers', 'slices', 'groups') if n <= 3 else ('layers',)
        for lv in levels[1:]:
            setattr(chunk, '_' + lv, tab)
        for m in msa_positions(n):
            msa = _msa_value(m, hs, None)
            chunk._prms['MSA'] = msa
            for flag in (False, True):
                chunk._clouds_above_msa_buffer = flag
                for lv in levels:
                    msg = chunk.metar_msg(lv)
                    evals += 1
                    nv = len(viol)
                    oracles.check_message(msg, tab, msa, flag, viol, tags, which=lv, props=props)
                    for v in viol[nv:]:
                        v.update(table_oktas=list(okt), bases=hs, msa=msa, flag=flag)
                if first is None and n:
                    first = {'workload': 'table-driven', 'oktas': list(okt), 'bases': hs, 'msa': msa,
                             'flag': flag, 'msg': msg}
    return {'evals': evals, 'nontrivial_n': evals if n else 0, 'nontrivial': [],
            'tags': sorted(tags) + ['tables_n%d' % n],
            'viol': viol[:20], 'counters': {'table_msgs': evals, 'tables': len(mine)}, 'sample': first}


def check_late_msa_edit(desc, props):
    """The MSA is fixed at chunk construction: parameters set through the global dictionary (no per-call
    prms), layers between MSA and MSA+buffer, then the global MSA is edited in place / reset before
    metar_msg() is called on the existing chunk."""
    import ampycloud
    from ampycloud import dynamic
    import warnings
    rng = scenes.rng_for(desc['s'], desc['p'], desc['i'])
    oktas = [int(x) for x in rng.choice([2, 4, 6, 8], int(rng.integers(2, 4)))]
    sc, prm = pipeline.flat_okta_case(rng, {'oktas': oktas, 'msa': ['between', 0], 'buffer': 5000.0, 'h0': 1070.0})
    viol, tags = [], set()
    evals = 0
    try:
        with warnings.catch_warnings():
            warnings.simplefilter('ignore')
            ampycloud.reset_prms()
            from .c12 import nested_edit
            nested_edit(dynamic.AMPYCLOUD_PRMS, prm['call'])
            msa0 = dynamic.AMPYCLOUD_PRMS['MSA']
            ch = ampycloud.run(scenes.frame(sc))
            first = {w: ch.metar_msg(w) for w in obs.WHICH}
            for edit in ('raise', 'none', 'reset'):
                if edit == 'raise':
                    dynamic.AMPYCLOUD_PRMS['MSA'] = msa0 + 4000.0
                elif edit == 'none':
                    dynamic.AMPYCLOUD_PRMS['MSA'] = None
                else:
                    ampycloud.reset_prms('MSA')
                for w in obs.WHICH:
                    msg = ch.metar_msg(w)
                    evals += 1
                    nv = len(viol)
                    oracles.check_message(msg, getattr(ch, w), msa0, ch.clouds_above_msa_buffer, viol, tags, which=w, props=props)
                    for v in viol[nv:]:
                        v.update(msa_at_construction=msa0, global_msa_now=dynamic.AMPYCLOUD_PRMS['MSA'], first_message=first[w])
    finally:
        ampycloud.reset_prms()
    tags.add('late_msa_edit')
    return {'evals': evals, 'nontrivial': [obs.case_hash('late', desc['i'], j) for j in range(evals)], 'tags': sorted(tags),
            'viol': viol[:10], 'counters': {'runs': 1},
            'sample': {'workload': 'global MSA edited after run()', 'oktas': oktas, 'msa_at_construction': msa0, 'messages': first} if desc['i'] % 5 == 0 else None}


def check(desc, props):
    if desc['fam'] == 'tables':
        return check_tables(desc, props)
    if desc['fam'] == 'late_msa_edit':
        return check_late_msa_edit(desc, props)
    case = pipeline.materialise(desc)
    run = pipeline.execute(case)
    viol, tags = [], set()
    res = {'evals': 0, 'nontrivial': [], 'counters': {'runs': 1}, 'case': case}
    if run.exc is not None:
        res['counters']['crashed'] = 1
        res['tags'] = ['crashed:' + type(run.exc).__name__]
        return res
    c = run.chunk
    _, n_above = oracles.expected_crop(run.df, run.eff)
    for w in obs.WHICH:
        oracles.check_message(run.msgs[w], getattr(c, w), run.eff['MSA'], c.clouds_above_msa_buffer, viol, tags,
                              which=w, n_hits_above=n_above, max_hits_okta0=run.eff['MAX_HITS_OKTA0'],
                              props=props)
        res['evals'] += 1
        if len(getattr(c, w)) or n_above:
            res['nontrivial'].append(obs.case_hash(pipeline.case_digest(case), w))
    viol += [b for b in run.rec.broken if b['prop'] in props]
    res['counters']['contract_evaluations'] = sum(run.rec.counts.get(k, 0) for k in
                                                  ('significant_cloud', 'height2code'))
    res['viol'] = [v for v in viol if v['prop'] in props]
    res['tags'] = sorted(tags) + ['fam:' + desc['fam']]
    if desc['i'] % 97 == 0 or desc['fam'] == 'flat' and desc['i'] % 50 == 0:
        res['sample'] = pipeline.small_sample(case, {'messages': run.msgs, 'layer_oktas': c.layers['okta'].tolist(),
                                                     'layer_bases': c.layers['height_base'].tolist()})
    return res
