"""C07 - Hits above MSA+buffer never influence the result; those below are kept intact."""
import copy
import numpy as np
from .. import scenes, obs, oracles, twin, pipeline

ID, NUM, LEVEL = 'C07', 7, 'exploration'
RULE = ('Evaluation = one triple of executions (A, A\\u2032, A\\u2033) of the real pipeline: A = a scene with an MSA; '
        'A\\u2032 = every hit above MSA+buffer moved to another fresh height above the limit; A\\u2033 = those hits turned '
        'into non-detections (type<=1) or removed (type>=2). Oracle: the slices/groups/layers tables and the '
        'per-hit data of the three runs are bit-identical; the multiset of (ceilo, dt, height, type) kept in '
        'CeiloChunk.data equals the input minus the documented crop (every hit at or below the limit unchanged); '
        'the high-cloud flag of each run == (number of input hits above the limit > MAX_HITS_OKTA0); with MSA None '
        'nothing changes and the flag is False; the flag is read again after all three messages were asked for (a query must not move it), incl. scenes whose only clouds sit inside the buffer zone. Workload: generated scenes with limits placed exactly at a hit '
        'height, between hits, at 0, with buffer 0, above/below everything; first/second/third/VV hits straddling '
        'the limit; MAX_HITS_OKTA0 in 0..10 incl. count == MAX_HITS_OKTA0 and +1; non-unique index labels. '
        'Non-trivial = >= 1 hit above the limit; distinct = hash of (rows, parameters).')
ASSUMPTIONS = ['frames whose rows are all type>=2 hits above the limit (chunk emptied by the crop: known finding D8, decided by C08) are skipped']
REQUIRED = ['limit_eq_hit_height', 'type_ge2_above', 'vv_above', 'n_above_eq_MAX_HITS_OKTA0', 'n_above_eq_MAX_HITS_OKTA0_plus1',
            'msa_none', 'buffer_0', 'msa_0', 'flag_true', 'flag_false_with_hits_above', 'significant_cloud_only_inside_buffer_zone', 'nonunique_index',
            'type1_above_type2_below', 'noninteger_msa_and_buffer', 'checked_concat_frames', 'measurement_of_second_hits_only_above']
SIZES = {'quick': 420, 'thorough': 9000}


def plan(tier, seed):
    return [{'s': seed, 'i': i} for i in range(SIZES[tier])]


def build(desc):
    rng = scenes.rng_for(desc['s'], NUM, desc['i'])
    i = desc['i']
    if i % 10 == 7:
        # every cloud sits inside the buffer zone [MSA, MSA + buffer] (or a few hits above it): nothing is cropped,
        # nothing is reportable, and the flag stays down whatever is asked of the chunk afterwards
        sc, prm = pipeline.flat_okta_case(rng, {'oktas': [int(rng.choice([2, 4, 6, 8])), int(rng.choice([0, 3, 8]))], 'msa': ['below'],
                                                'buffer': float(rng.choice([1700.0, 3000.0, 10000.0])), 'nce': 1 + (i // 10) % 2})
        limit = prm['call']['MSA'] + prm['call']['MSA_HIT_BUFFER']
        n_above = sum(1 for r in sc['rows'] if r[2] == r[2] and r[2] > limit)
        prm['call']['MAX_HITS_OKTA0'] = max(3, n_above)
        sc['buffer_zone_only'] = True
        return {'scene': sc, 'prm': prm, 'limit': limit}
    sc = scenes.gen_scene(rng, allow_vv=True, maxrows=400, nce=None)
    if i % 6 == 0:      # make sure VV hits exist high up
        rows = sc['rows']
        hs = scenes.heights_of(sc)
        if len(hs):
            for t in range(3):
                rows.append(['vvc', -float(t) * 11.0 - 0.123, float(hs.max() + 10 * t), -1])
            sc['names'] = sc['names'] + ['vvc']
    if i % 5 == 4:      # hit numbering that does not follow the height order (accepted silently)
        per = {}
        for j, r in enumerate(sc['rows']):
            if r[3] > 0:
                per.setdefault((r[0], r[1]), []).append(j)
        for js in per.values():
            if len(js) > 1:
                ts = [sc['rows'][j][3] for j in js]
                for j, t in zip(js, ts[::-1]):
                    sc['rows'][j][3] = t
    hs = np.sort(np.unique(scenes.heights_of(sc)))
    prm = scenes.gen_prms(rng, sc, msa=False, rich=(i % 4 == 0))
    call = prm['call']
    mode = i % 8
    if mode == 7 or len(hs) == 0:
        call['MSA'] = None
        limit = None
    else:
        buf = float(rng.choice([0, 0, 100, 1500]))
        if mode in (0, 1):
            limit = float(hs[int(rng.integers(len(hs)))])          # exactly at a hit height
        elif mode == 2:
            j = int(rng.integers(len(hs)))
            limit = float((hs[j] + hs[min(j + 1, len(hs) - 1)]) / 2)
        elif mode == 3:
            limit, buf = 0.0, 0.0
        elif mode == 4:
            limit = float(hs[-1] + 1)
        elif mode == 5:
            limit = float(np.nextafter(hs[int(rng.integers(len(hs)))], -np.inf))
        else:
            limit = float(rng.uniform(0, hs[-1]))
        if limit - buf < 0:
            buf = 0.0
        if i % 3 == 1 and limit > 2:
            buf = float(np.round(limit * rng.uniform(0.05, 0.4), 3)) + 0.0517
        call['MSA'] = limit - buf
        if call['MSA'] + buf != limit:          # float addition must reproduce the limit exactly
            call['MSA'], buf = limit, 0.0
        call['MSA_HIT_BUFFER'] = buf
    if limit is not None:
        n_above = sum(1 for r in sc['rows'] if r[2] == r[2] and r[2] > limit)
        if i % 5 == 1 and n_above <= 10:
            call['MAX_HITS_OKTA0'] = n_above
        elif i % 5 == 2 and 1 <= n_above <= 11:
            call['MAX_HITS_OKTA0'] = n_above - 1
    if i % 7 == 5:
        sc['rows'] = sorted(sc['rows'], key=lambda r: r[0])
        sc['assemble'] = 'checked_concat'
    if i % 9 == 4 and limit is not None:
        # "missing lower types" (warn-only): measurements above the limit that consist of second hits only
        multi = {}
        for r in sc['rows']:
            if r[2] == r[2] and r[2] > limit:
                multi.setdefault((r[0], r[1]), []).append(r)
        drop = set()
        for key, rs in multi.items():
            if len(rs) >= 2 and all(x[2] > limit for x in [y for y in sc['rows'] if (y[0], y[1]) == key and y[2] == y[2]]):
                drop.add(id(min(rs, key=lambda x: x[3])))
        if drop:
            sc['rows'] = [r for r in sc['rows'] if id(r) not in drop]
            sc['missing_lower_types'] = True
    if i % 7 == 3:
        cnt = {}
        idx = []
        for r in sc['rows']:
            idx.append(cnt.get(r[0], 0))
            cnt[r[0]] = idx[-1] + 1
        sc['index'] = idx
    return {'scene': sc, 'prm': prm, 'limit': limit}


def variants(rng, sc, limit):
    """A' (moved) and A'' (non-detections / removed)."""
    top = max([r[2] for r in sc['rows'] if r[2] == r[2]] + [limit]) + 10.0
    moved, gone = [], []
    idx_m, idx_g = [], []
    index = sc.get('index')
    k = 0
    stays = {}          # measurements that keep a hit at or below the limit
    for r in sc['rows']:
        if r[2] == r[2] and r[2] <= limit:
            stays[(r[0], r[1])] = True
    same_rows = True
    for j, r in enumerate(sc['rows']):
        if r[2] == r[2] and r[2] > limit:
            k += 1
            h = float(limit + (top - limit) * rng.uniform(0.001, 3.0) + k * 1e-3)
            if not h > limit:
                h = float(np.nextafter(limit, np.inf))
            moved.append([r[0], r[1], h, r[3]])
            if r[3] <= 1 and (r[0], r[1]) in stays:
                same_rows = False       # a non-detection cannot coexist with the remaining hit: remove instead
            elif r[3] <= 1:
                gone.append([r[0], r[1], float('nan'), 0])
                idx_g.append(j)
        else:
            moved.append(list(r))
            gone.append(list(r))
            idx_g.append(j)
    a1 = dict(sc, rows=moved)
    a2 = dict(sc, rows=gone)
    if index is not None:
        a2['index'] = [index[j] for j in idx_g]
    a2['same_rows'] = same_rows
    return a1, a2


def check(desc):
    case = build(desc)
    sc, prm, limit = case['scene'], case['prm'], case['limit']
    eff = obs.effective(prm)
    viol, tags = [], set()
    res = {'evals': 0, 'nontrivial': [], 'counters': {'runs': 0}, 'case': {'scene': sc, 'prm': prm}, 'viol': viol}
    if scenes.empties_chunk(sc, eff):
        res['tags'] = ['skipped_empty_after_crop']
        return res
    rng = scenes.rng_for(desc['s'], NUM, desc['i'], 1)
    df = scenes.frame(sc)
    oa, ea = twin.observe_run(df, prm)
    res['counters']['runs'] += 1
    if ea is not None:
        res['tags'] = ['crashed:' + type(ea).__name__]
        res['counters']['crashed'] = 1
        return res
    o0 = eff['MAX_HITS_OKTA0']
    exp_rows, n_above = oracles.expected_crop(df, eff)
    got = [(c, t, None if h != h else h, k) for c, t, h, k in zip(oa['data']['data']['ceilo'], oa['data']['data']['dt'],
                                                                  oa['data']['data']['height'], oa['data']['data']['type'])]
    if sorted(map(oracles._rowkey, exp_rows)) != sorted(map(oracles._rowkey, got)):
        a = set(map(oracles._rowkey, exp_rows))
        b = set(map(oracles._rowkey, got))
        oracles.V(viol, 'C07', 'hits at or below the limit not kept unchanged / hits above not cropped as documented',
                  limit=limit, missing=sorted(a - b)[:4], unexpected=sorted(b - a)[:4], n_in=len(df), n_kept=len(got))
    if oa['flag'] != (n_above > o0):
        oracles.V(viol, 'C07', 'high-cloud flag != (hits above the limit > MAX_HITS_OKTA0)', n_above=n_above,
                  max_hits_okta0=o0, flag=oa['flag'], limit=limit)
    if oa['flag_after_msgs'] != (n_above > o0):
        oracles.V(viol, 'C07', 'high-cloud flag changes when the messages are asked for', n_above=n_above,
                  max_hits_okta0=o0, flag_after_run=oa['flag'], flag_after_metar_msg=oa['flag_after_msgs'], limit=limit,
                  msgs=oa['msgs'])
    if sc.get('buffer_zone_only') and not oa['flag'] and set(oa['msgs'].values()) == {'NSC'}:
        tags.add('significant_cloud_only_inside_buffer_zone')
    res['evals'] = 1
    if limit is None:
        tags.add('msa_none')
        if oa['flag']:
            oracles.V(viol, 'C07', 'flag raised without an MSA')
    else:
        if eff['MSA_HIT_BUFFER'] == 0:
            tags.add('buffer_0')
        if eff['MSA'] == 0:
            tags.add('msa_0')
        if any(r[2] == limit for r in sc['rows']):
            tags.add('limit_eq_hit_height')
        above = [r for r in sc['rows'] if r[2] == r[2] and r[2] > limit]
        if any(r[3] >= 2 for r in above):
            tags.add('type_ge2_above')
        if any(r[3] == -1 for r in above):
            tags.add('vv_above')
        if n_above == o0 and n_above:
            tags.add('n_above_eq_MAX_HITS_OKTA0')
        if n_above == o0 + 1:
            tags.add('n_above_eq_MAX_HITS_OKTA0_plus1')
        tags.add('flag_true' if oa['flag'] else ('flag_false_with_hits_above' if n_above else 'nothing_above'))
        stamps = {}
        for r in sc['rows']:
            if r[2] == r[2]:
                stamps.setdefault((r[0], r[1]), []).append(r)
        if any(any(x[3] <= 1 and x[2] > limit for x in v) and any(x[3] >= 2 and x[2] <= limit for x in v) for v in stamps.values()):
            tags.add('type1_above_type2_below')
        if eff['MSA'] != int(eff['MSA']) and eff['MSA_HIT_BUFFER'] != int(eff['MSA_HIT_BUFFER']):
            tags.add('noninteger_msa_and_buffer')
        if sc.get('assemble') == 'checked_concat' and n_above:
            tags.add('checked_concat_frames')
        if sc.get('missing_lower_types'):
            tags.add('measurement_of_second_hits_only_above')
        if sc.get('index') is not None and n_above:
            tags.add('nonunique_index')
        if n_above:
            res['nontrivial'].append(obs.case_hash(sc['rows'], prm))
            a1, a2 = variants(rng, sc, limit)
            for name, v in (('moved above the limit', a1), ('replaced by non-detections / removed', a2)):
                if scenes.empties_chunk(v, eff) or not v['rows']:
                    continue
                ov, ev = twin.observe_run(scenes.frame(v), prm)
                res['counters']['runs'] += 1
                if ev is not None:
                    oracles.V(viol, 'C07', 'variant run raises', variant=name, **twin.exc_info(ev))
                    continue
                if v.get('same_rows', True):
                    d = obs.first_diff(twin.tables_only(oa), twin.tables_only(ov))
                    if d is None:
                        d = obs.first_diff(oa['data'], ov['data'])
                else:
                    # a type<=1 hit above the limit shares its measurement with a hit below it (hit numbering not in
                    # height order): the variant must drop that row instead of creating an impossible non-detection,
                    # so the two chunks hold a different number of rows and the (unstable) time sort may order
                    # simultaneous hits differently (look-back cut, LOWESS).  Only the conservation and flag clauses
                    # are decided for this variant.
                    tags.add('variant_rows_differ_tables_not_compared')
                    d = None
                if d is not None:
                    oracles.V(viol, 'C07', 'tables / per-hit data differ when the hits above the limit are ' + name,
                              first_difference=list(d), limit=limit, n_above=n_above)
                n2 = sum(1 for r in v['rows'] if r[2] == r[2] and r[2] > limit)
                if ov['flag'] != (n2 > o0):
                    oracles.V(viol, 'C07', 'high-cloud flag of the variant run', variant=name, n_above=n2,
                              max_hits_okta0=o0, flag=ov['flag'])
    res['tags'] = sorted(tags)
    if desc['i'] % 53 == 0:
        res['sample'] = pipeline.small_sample({'scene': sc, 'prm': prm}, {'limit': limit, 'n_above': n_above,
                                                                          'flag': oa['flag'], 'msg': oa['msgs']['layers']})
    return res
