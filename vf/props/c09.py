"""C09 - Results are bit-for-bit reproducible and the global random state is left alone."""
import os
import copy
import random
import warnings
import numpy as np
from .. import scenes, obs, oracles, pipeline, twin

ID, NUM, LEVEL = 'C09', 9, 'exploration'
RULE = ('(Every fourth worker runs under python -O; one dense chunk of ~6 000 hits in a single group is processed from three prior global RNG states and its heights are fed to the mixture-model helper directly.) Evaluation = one case digested in four fresh processes that differ in PYTHONHASHSEED (0, 1, 123, random), in '
        'the global NumPy seed / position (incl. a cached Gaussian), in the order the cases are processed and in '
        'what ran before (other cases, the same hits with other parameter values, demo), and twice in a row inside one process: all digests (tables, '
        'per-hit data, messages; exact float bit patterns) must be equal. Every public call (run, metar_msg, demo, '
        'canonical_demo_data, mock_layers under tmp_seed, tmp_seed with a raising body, direct ncomp_from_gmm with '
        'several random_seed values incl. 0) is bracketed by numpy.random.get_state() and compared field by '
        'field (key, position, has_gauss, cached_gaussian); calls of numpy.random.seed/set_state made from '
        'ampycloud code outside tmp_seed are recorded as violations. Workload: generated scenes with mixture-'
        'model-heavy (bi/tri-modal) scenes over-weighted. Non-trivial = the mixture model was fitted for the case; '
        'distinct = hash of (rows, parameters).')
ASSUMPTIONS = ['BLAS/OpenMP thread counts held fixed at 1 (the property excludes thread-count variation)',
               'one machine, one library build']
REQUIRED = ['dense_chunk_gt5000_hits_in_one_group', 'four_processes', 'hashseed_0', 'hashseed_1', 'hashseed_123', 'hashseed_random', 'reversed_order',
            'in_process_repeat', 'tmp_seed_raising_body', 'cached_gaussian_prior_state', 'demo', 'direct_gmm_seed0',
            'gmm_fitted', 'same_data_other_prms_before', 'global_route_with_history']
SIZES = {'quick': dict(groups=8, per=9), 'thorough': dict(groups=40, per=16)}
HASHSEEDS = ['0', '1', '123', 'random']


def plan(tier, seed):
    z = SIZES[tier]
    out = []
    for g in range(z['groups']):
        for r in range(4):
            out.append({'fam': 'digest', 'g': g, 'r': r, 'per': z['per'], 's': seed, 'i': g * 4 + r})
    for j in range(4 if tier == 'quick' else 16):
        out.append({'fam': 'rng', 's': seed, 'i': 10000 + j})
    for j in range(1 if tier == 'quick' else 4):
        out.append({'fam': 'huge', 's': seed, 'i': 20000 + j})
    return out


def SHARD_ENV(j, shard):
    return {'PYTHONHASHSEED': HASHSEEDS[j % 4], 'VERIF_SHARD': str(j)}


def case_of(seed, g, k):
    idx = g * 1000 + k
    if k % 9 == 5:
        case = pipeline.materialise({'fam': 'tiecut', 's': seed, 'p': NUM, 'i': idx, 'k': {'order': 'shuf'}})
        names = ['C0', 'C1', 'C2']
        ren = {n: m for n, m in zip(names, [['zeta', 'Alpha', 'm-2'], ['b', 'a', 'c'], ['10', '9', '11']][k % 3])}
        case['scene']['rows'] = [[ren[r[0]], r[1], r[2], r[3]] for r in case['scene']['rows']]
        case['scene']['names'] = [ren[n] for n in names]
        return case
    if k % 9 == 7:
        # parameters set through the global dictionary (no per-call prms): non-empty exclusion list
        case = pipeline.materialise({'fam': 'chain', 's': seed, 'p': NUM, 'i': idx, 'k': {'nce': 3, 'lookback': 100, 'bins': 0}})
        case['prm'] = {'call': {}, 'glob': {'EXCLUDE_FOR_BASE_HEIGHT_CALC': ['b', 'c'], 'BASE_LVL_HEIGHT_PERC': 20}}
        case['global_route'] = True
        return case
    if k % 4 == 3:
        desc = {'fam': 'quantised', 's': seed, 'p': NUM, 'i': idx, 'k': {'nce': 1 + k % 2, 'lookback': 100}}
    elif k % 3 == 0:
        desc = {'fam': 'generic', 's': seed, 'p': NUM, 'i': idx, 'k': {'big': k % 2 == 0}}
    elif k % 3 == 1:
        desc = {'fam': 'bimodal', 's': seed, 'p': NUM, 'i': idx, 'k': {'third': k % 2 == 0, 'nce': 1 + k % 3}}
    else:
        desc = {'fam': 'chain', 's': seed, 'p': NUM, 'i': idx, 'k': {'exclude': 'rand'}}
    return pipeline.materialise(desc)


def state_diff(a, b):
    names = ['kind', 'key', 'pos', 'has_gauss', 'cached_gaussian']
    for n, x, y in zip(names, a, b):
        same = np.array_equal(x, y) if isinstance(x, np.ndarray) else (x == y or (x != x and y != y))
        if not same:
            return n
    return None


class SeedSpy:
    """Wrap numpy.random.seed / set_state and record calls made from ampycloud code outside tmp_seed."""

    def __init__(self):
        self.calls = 0
        self.bad = []

    def __enter__(self):
        import traceback
        self._seed, self._set = np.random.seed, np.random.set_state

        def mk(orig, name):
            def wrapper(*a, **k):
                st = traceback.extract_stack()[:-1]
                amp = [f for f in st if '/ampycloud/' in f.filename]
                if amp:
                    self.calls += 1
                    if not any(f.name == 'tmp_seed' for f in amp):
                        self.bad.append('%s called from %s:%s' % (name, amp[-1].name, amp[-1].lineno))
                return orig(*a, **k)
            return wrapper
        np.random.seed = mk(self._seed, 'numpy.random.seed')
        np.random.set_state = mk(self._set, 'numpy.random.set_state')
        return self

    def __exit__(self, *exc):
        np.random.seed, np.random.set_state = self._seed, self._set


def bracket(fn, viol, what, **wit):
    s0 = np.random.get_state()
    p0 = random.getstate()
    try:
        return fn()
    finally:
        d = state_diff(s0, np.random.get_state())
        if d is not None:
            oracles.V(viol, 'C09', 'global NumPy random state changed by ' + what, field=d, **wit)
        wit['_py_random_changed'] = p0 != random.getstate()


def set_prior(rng, kind):
    """Arbitrary prior global state; kind 1/3: an odd number of normal draws leaves a cached Gaussian."""
    np.random.seed(int(rng.integers(0, 2 ** 31)))
    if kind in (1, 3):
        np.random.normal(size=2 * int(rng.integers(0, 5)) + 1)
    elif kind == 2:
        np.random.random(int(rng.integers(1, 50)))
    return bool(np.random.get_state()[3])


def check_digest(desc):
    import ampycloud
    viol, tags = [], set()
    g, r, seed = desc['g'], desc['r'], desc['s']
    rng = scenes.rng_for(seed, NUM, desc['i'], 77)
    order = list(range(desc['per']))
    if r == 1:
        order = order[::-1]
        tags.add('reversed_order')
    elif r == 2:
        order = [int(x) for x in rng.permutation(desc['per'])]
        with warnings.catch_warnings():
            warnings.simplefilter('ignore')
            ampycloud.demo()                       # something else ran before in this process
    digests = {}
    evals = 0
    nontrivial = []
    hs = os.environ.get('PYTHONHASHSEED', 'unset')
    tags.add('hashseed_' + hs)
    with SeedSpy() as spy:
        for k in order:
            case = case_of(seed, g, k)
            if set_prior(rng, r):
                tags.add('cached_gaussian_prior_state')
            df = scenes.frame(case['scene'])
            if r == 2 and case.get('global_route'):
                # history under the SAME global parameters: a chunk in which the excluded instruments do not report
                pre = scenes.frame(scenes.close_chain_scene(scenes.rng_for(seed, NUM, g * 1000 + k, 3), nl=3, nce=1))
                try:
                    with warnings.catch_warnings():
                        warnings.simplefilter('ignore')
                        with obs.installed(case['prm']):
                            import ampycloud as _a
                            _a.run(pre)
                            ch = bracket(lambda: _a.run(df), viol, 'run()', case=[g, k])
                            o = obs.observe(ch)
                    digests['%d:%d' % (g, k)] = obs.ohash({kk: (list(o['msgs'].values()) if kk == 'msgs' else vv) for kk, vv in o.items() if kk != 'flag_after_msgs'})
                    tags.add('global_route_with_history')
                    evals += 1
                    continue
                except Exception as e:      # noqa
                    digests['%d:%d' % (g, k)] = 'EXC:' + type(e).__name__
                    continue
            if r == 2:
                # "what was processed before": the very same hits with other parameter values (a memo keyed
                # on the data alone would now serve stale results)
                other = copy.deepcopy(case['prm'])
                other['call'].update({'LOWESS': {'frac': 0.9, 'it': 0}, 'BASE_LVL_HEIGHT_PERC': 63.0,
                                      'BASE_LVL_LOOKBACK_PERC': 37.0, 'MAX_HITS_OKTA0': 1, 'MAX_HOLES_OKTA8': 3,
                                      'MIN_SEP_VALS': [40.0], 'MIN_SEP_LIMS': [],
                                      'GROUPING_PRMS': {'height_pad_perc': 35.0, 'dt_scale': 77.0, 'height_scale_range': [33.0, 333.0]},
                                      'LAYERING_PRMS': {'min_okta_to_split': 1, 'gmm_kwargs': {'scores': 'AIC', 'delta_mul_gain': 0.8}}})
                other['call'].pop('MSA', None)
                try:
                    with warnings.catch_warnings():
                        warnings.simplefilter('ignore')
                        obs.run(df, other)
                    tags.add('same_data_other_prms_before')
                except Exception:       # noqa - irrelevant here
                    pass
            reps = 2 if r == 3 else 1
            for rep in range(reps):
                from .. import instrument
                with instrument.recording(contracts=False, merges=False) as rec:
                    try:
                        ch = bracket(lambda: obs.run(df, case['prm']), viol, 'run()', case=[g, k])
                        o = obs.observe(ch, msgs=False)
                        msgs = bracket(lambda: [ch.metar_msg(w) for w in obs.WHICH], viol, 'metar_msg()', case=[g, k])
                        o['msgs'] = msgs
                        dg = obs.ohash(o)
                    except Exception as e:      # noqa - decided by C08; the digest of a crash is its type
                        dg = 'EXC:' + type(e).__name__
                fitted = len(rec.of('best_gmm')) > 0
                key = '%d:%d' % (g, k)
                if rep == 1:
                    tags.add('in_process_repeat')
                    if digests[key] != dg:
                        oracles.V(viol, 'C09', 'two consecutive runs in one process give different results', case=[g, k])
                digests[key] = dg
                evals += 1
            if fitted:
                tags.add('gmm_fitted')
                nontrivial.append(pipeline.case_digest(case))
    for b in spy.bad:
        oracles.V(viol, 'C09', 'global NumPy generator seeded / restored outside the temporary-seed helper', where=b)
    return {'evals': 0, 'nontrivial': nontrivial if r == 0 else [], 'tags': sorted(tags), 'viol': viol[:20],
            'counters': {'runs': evals, 'seed_calls_from_ampycloud': spy.calls, 'process_%d_cases' % r: len(order)},
            'digests': digests, 'replica': r, 'pid': os.getpid(), 'hashseed': hs,
            'sample': {'group': g, 'replica': r, 'PYTHONHASHSEED': hs, 'order': order[:6],
                       'digest_of_first_case': digests.get('%d:0' % g)} if g == 0 else None}


def check_rng(desc):
    import ampycloud
    from ampycloud import layer
    from ampycloud.utils import mocker, utils
    viol, tags = [], set()
    rng = scenes.rng_for(desc['s'], NUM, desc['i'])
    n = 0
    lyr = [{'height': 1000, 'height_std': 100, 'sky_cov_frac': 0.5, 'period': 10, 'amplitude': 0}]
    with SeedSpy() as spy, warnings.catch_warnings():
        warnings.simplefilter('ignore')
        for kind in (0, 1, 2, 3, 1):
            if set_prior(rng, kind):
                tags.add('cached_gaussian_prior_state')
            d1 = bracket(mocker.canonical_demo_data, viol, 'canonical_demo_data()', prior=kind)
            set_prior(rng, kind)
            d2 = bracket(mocker.canonical_demo_data, viol, 'canonical_demo_data()', prior=kind)
            if not d1.equals(d2):
                oracles.V(viol, 'C09', 'canonical demo data depend on the prior global random state')
            set_prior(rng, kind)
            bracket(ampycloud.demo, viol, 'demo()', prior=kind)
            tags.add('demo')

            def seeded_mock():
                with utils.tmp_seed(int(rng.integers(1000))):
                    return mocker.mock_layers(1, 300, 30, lyr)
            set_prior(rng, kind)
            bracket(seeded_mock, viol, 'mock_layers() under tmp_seed', prior=kind)

            def raising():
                try:
                    with utils.tmp_seed(7):
                        np.random.normal(size=3)
                        raise KeyError('boom')
                except KeyError:
                    return None
            set_prior(rng, kind)
            bracket(raising, viol, 'tmp_seed() with a raising body', prior=kind)
            tags.add('tmp_seed_raising_body')
            n += 5
            # direct calls of the mixture-model helper with several seeds, from different prior states
            vals = np.concatenate([rng.normal(1000, 30, 60), rng.normal(1500, 30, 50)])
            for rs in (0, 1, 42, 7):
                outs = []
                for prior in (0, 1, 2):
                    set_prior(rng, prior)
                    res = bracket(lambda: layer.ncomp_from_gmm(vals.copy(), min_sep=100, random_seed=rs), viol,
                                  'ncomp_from_gmm(random_seed=%d)' % rs, prior=prior)
                    outs.append((int(res[0]), np.asarray(res[1]).tolist(), np.asarray(res[2]).tolist()))
                    n += 1
                if any(o != outs[0] for o in outs[1:]):
                    oracles.V(viol, 'C09', 'ncomp_from_gmm result depends on the prior global random state', random_seed=rs)
                if rs == 0:
                    tags.add('direct_gmm_seed0')
    for b in spy.bad:
        oracles.V(viol, 'C09', 'global NumPy generator seeded / restored outside the temporary-seed helper', where=b)
    return {'evals': n, 'nontrivial': [obs.case_hash('rng', desc['i'], j) for j in range(n)], 'tags': sorted(tags),
            'viol': viol[:20], 'counters': {'rng_brackets': n, 'seed_calls_from_ampycloud': spy.calls}}


def check_huge(desc):
    """One very dense chunk (six instruments, ~6 000 hits in a single group - an order of magnitude above the
    operational size: paths that depend on the NUMBER of hits) processed from different prior global states; plus
    the mixture-model helper called directly on the 6 000 heights."""
    from ampycloud import layer
    viol, tags = [], set()
    rng = scenes.rng_for(desc['s'], NUM, desc['i'])
    nt = 1000 + int(rng.integers(0, 30))
    base = float(rng.choice([1200.0, 4300.0]))
    rows = [['c%d' % ci, -0.9 * t - 0.1 * ci, float(np.round(base + 80.0 * np.sin(t / 97.0) + rng.normal(0, 30.0), 1)), 1]
            for ci in range(6) for t in range(nt)]
    sc = {'rows': scenes.dedupe(rows), 'names': ['c%d' % ci for ci in range(6)], 'order': 'none', 'fam': 'huge'}
    df = scenes.frame(sc)
    prm = {'call': {'MSA': None, 'LAYERING_PRMS': {'min_okta_to_split': 0}}, 'glob': {}}
    digs = []
    n = 0
    with SeedSpy() as spy, warnings.catch_warnings():
        warnings.simplefilter('ignore')
        for prior in (1, 2, 0):
            set_prior(rng, prior)
            ch = bracket(lambda: obs.run(df, prm), viol, 'run() on a 6000-hit chunk', prior=prior)
            digs.append(obs.ohash(obs.observe(ch)))
            n += 1
        if len(set(digs)) != 1:
            oracles.V(viol, 'C09', 'result of a dense chunk depends on the prior global random state', n_hits=len(df), digests=digs)
        vals = df['height'].to_numpy()
        outs = []
        for prior in (1, 2):
            set_prior(rng, prior)
            res = bracket(lambda: layer.ncomp_from_gmm(vals.copy(), min_sep=100), viol, 'ncomp_from_gmm() on 6000 values', prior=prior)
            outs.append((int(res[0]), np.asarray(res[1]).tolist(), np.asarray(res[2]).tolist()))
            n += 1
        if outs[0] != outs[1]:
            oracles.V(viol, 'C09', 'ncomp_from_gmm result depends on the prior global random state', n_values=len(vals))
    for b in spy.bad:
        oracles.V(viol, 'C09', 'global NumPy generator seeded / restored outside the temporary-seed helper', where=b)
    if ch.n_groups >= 1 and int(ch.data['group_id'].value_counts().iloc[0]) > 5000:
        tags.add('dense_chunk_gt5000_hits_in_one_group')
    return {'evals': n, 'nontrivial': [obs.case_hash('huge', desc['i'], j) for j in range(n)], 'tags': sorted(tags),
            'viol': viol[:20], 'counters': {'rng_brackets': n, 'seed_calls_from_ampycloud': spy.calls},
            'sample': {'workload': 'dense chunk', 'n_hits': len(df), 'msg': ch.metar_msg()}}


def check(desc):
    if desc['fam'] == 'huge':
        return check_huge(desc)
    return check_digest(desc) if desc['fam'] == 'digest' else check_rng(desc)


def finalize(agg, tier, seed):
    """Cross-process clause: every case must have the same digest in all processes that ran it."""
    by_case = {}
    pids = {}
    for i, r in agg['results'].items():
        if 'digests' not in r:
            continue
        for k, dg in r['digests'].items():
            by_case.setdefault(k, {})[r['replica']] = (dg, r['pid'], r['hashseed'])
    out = []
    n4 = 0
    for k, reps in sorted(by_case.items()):
        agg['evals'] += 1
        if len({p for _, p, _ in reps.values()}) >= 4:
            n4 += 1
        if len({dg for dg, _, _ in reps.values()}) > 1:
            out.append({'prop': 'C09', 'clause': 'digest of one case differs between processes', 'case': k,
                        'digests': {str(r): list(v) for r, v in reps.items()}})
    if n4:
        agg['tags']['four_processes'] = n4
    agg['counters']['cases_compared_across_processes'] = len(by_case)
    agg['counters']['cases_in_4_distinct_processes'] = n4
    return out[:20]
