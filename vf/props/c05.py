"""C05 - Every hit is accounted for exactly once at every stage."""
import copy
import warnings
import numpy as np
from .. import scenes, obs, pipeline, oracles, instrument

ID, NUM, LEVEL = 'C05', 5, 'exploration'
RULE = ('Evaluation = one stage boundary (quiescent point after find_slices / find_groups / find_layers, the '
        'stages being called one by one on a real CeiloChunk) audited: id == -1 exactly for the non-detections, '
        'table cluster ids == ids present per hit, n_* == table length, every layer inside exactly one group, a '
        'group with ncomp=k>1 yields exactly k layers (else exactly one layer), multiset of '
        '(ceilo, dt, height, type) == coerced input after the documented crop rule; in-situ contract on '
        'ncomp_from_gmm (populated labels == ncomp, one label per hit). Workloads: generated scenes x slicing/'
        'grouping/layering parameters, degenerate families (single valid hit, all-NaN, one height, two heights), '
        'identical heights with a slicing min_range of 0 / below the float spacing (D14), a low group whose three mixture components are re-merged into two (component ids not 0-based) below a second split group, bi-/tri-modal thick groups, > 100 slices with the lowest group split (group ids >= 100), MSA crops. '
        'Non-trivial = >= 1 valid hit; distinct = hash of (rows, parameters, stage).')
ASSUMPTIONS = ['the chunk emptied by the crop (known finding D8, decided by C08) is not generated here']
REQUIRED = ['single_valid_hit', 'all_nan', 'group_split_in_2', 'group_split_in_3', 'gt100_slices',
            'msa_crop_active', 'groups_fewer_than_slices', 'gt100_slices_with_split',
            'nonunique_index_labels_with_crop', 'gt10_groups_two_splits', 'range_index_not_from_0_with_crop', 'slices_multiple_of_100_with_split', 'checked_concat_with_crop', 'one_height_degenerate_min_range', 'two_split_groups_lower_component_ids_not_0_based']
SIZES = {'quick': dict(generic=330, bimodal=60, many=4), 'thorough': dict(generic=9000, bimodal=1500, many=40)}


def plan(tier, seed):
    z = SIZES[tier]
    out = []
    for i in range(z['generic']):
        out.append({'fam': 'generic', 's': seed, 'p': NUM, 'i': i,
                    'k': {'big': i % 9 == 0, 'index': ['concat', 'sorted_repeats', 'range_offset', 'range_desc', 'checked_concat'][(i // 4) % 5] if i % 4 == 1 else None, 'anom': i % 3 == 2}})
    for i in range(z['bimodal']):
        out.append({'fam': 'bimodal', 's': seed, 'p': NUM, 'i': 100000 + i,
                    'k': {'third': i % 2 == 0, 'nce': 1 + i % 2, 'lookback': 100, 'bins': 0,
                          'prm_over': {'MSA': 5000.0, 'MSA_HIT_BUFFER': 500.0} if i % 3 == 0 else {}}})
    for i, kind in enumerate(scenes.DEGENERATE_KINDS * (1 if tier == 'quick' else 12)):
        out.append({'fam': 'degenerate', 's': seed, 'p': NUM, 'i': 200000 + i, 'k': {'kind': kind}})
    for i, mr in enumerate([0, 0.0, 1e-300, 1e-13, 1e-9] * (1 if tier == 'quick' else 6)):
        # identical heights and a (documented) minimum range of 0 / below the float spacing at that altitude
        out.append({'fam': 'degenerate', 's': seed, 'p': NUM, 'i': 250000 + i,
                    'k': {'kind': 'one_height', 'prm_only_over': True,
                          'prm_over': {'SLICING_PRMS': {'height_scale_kwargs': {'min_range': mr}}}}})
    for i in range(18 if tier == 'quick' else 90):
        # a low group of three sub-layers, two of which are re-merged (3 -> 2 components: the surviving component
        # ids need not be 0 and 1), below a second split group; the same scenes for every seed
        out.append({'fam': 'merge3to2', 's': seed, 'p': NUM, 'i': 260000 + i, 'var': i % 3, 'sd': i // 3})
    nref = 17 * (2 if tier == 'quick' else 24)
    for i in range(nref):        # real-world reference scenes of the repository (perturbed), random parameters
        out.append({'fam': 'refdata', 's': seed, 'p': NUM, 'i': 700000 + i,
                    'k': {'file': i % 17, 'perturb': (i // 17) % 5, 'default_prms': i < 17}})
    for i in range(3 if tier == 'quick' else 40):       # > 10 groups, several of them split
        out.append({'fam': 'manysplit', 's': seed, 'p': NUM, 'i': 400000 + i})
    for i in range(8 if tier == 'quick' else 24):       # number of slices swept through a multiple of 100
        out.append({'fam': 'exactslices', 's': seed, 'p': NUM, 'i': 500000 + i, 'n_single': 196 + i % 8 + 100 * (i // 8 % 3)})
    for i in range(z['many']):
        out.append({'fam': 'manyslices', 's': seed, 'p': NUM, 'i': 300000 + i})
    return out


def weight(d):
    return {'manyslices': 12.0, 'manysplit': 3.0, 'exactslices': 5.0}.get(d['fam'], 0.35)


def exact_slices_case(desc):
    """One low bimodal deck (a single slice, split by the mixture model) + n isolated single hits, each a slice and
    a group of its own: the number of slices (and the largest group id) is swept through 100 / 200."""
    rng = scenes.rng_for(desc['s'], NUM, desc['i'])
    rows = []
    for t in range(70):           # deterministic heights: the same slices for every seed
        dt = -t * 7.0
        rows.append(['a', dt, 500.0 + (t % 7) * 5.0, 1])
        if t % 5:
            rows.append(['a', dt, 640.0 + (t % 6) * 6.0, 2])
    n = desc['n_single']
    step = min(700.0, 94000.0 / n)
    for j in range(n):
        rows.append(['b', -j * 7.0 - 3, 4000 + j * step, 1])
    sc = {'rows': scenes.dedupe(rows), 'names': ['a', 'b'], 'order': 'none', 'fam': 'exactslices'}
    return {'scene': sc, 'prm': {'call': {'SLICING_PRMS': {'distance_threshold': 0.0035}, 'MIN_SEP_VALS': [100.0, 100.0],
                                          'MAX_HITS_OKTA0': 0}, 'glob': {}}}


def check(desc):
    from ampycloud.data import CeiloChunk
    if desc['fam'] == 'merge3to2':
        case = {'scene': scenes.layered_mock_scene(np.random.default_rng([7, desc['var'], desc['sd']]), scenes.MERGE3TO2_LAYERS[desc['var']]),
                'prm': {'call': {}, 'glob': {}}}
    else:
        case = exact_slices_case(desc) if desc['fam'] == 'exactslices' else pipeline.materialise(desc)
    df = scenes.frame(case['scene'])
    eff = obs.effective(case['prm'])
    res = {'evals': 0, 'nontrivial': [], 'counters': {'runs': 1}, 'case': case, 'viol': []}
    viol, tags = [], set()
    with instrument.recording() as rec, obs.installed(case['prm']), warnings.catch_warnings():
        warnings.simplefilter('ignore')
        try:
            ch = CeiloChunk(df, prms=copy.deepcopy(case['prm']['call']) or None)
            for stage in obs.WHICH:
                getattr(ch, 'find_' + stage)()
                nv = len(viol)
                oracles.check_accounting(ch, df, eff, viol, tags, stage=stage)
                for v in viol[nv:]:
                    v['stage'] = stage
                res['evals'] += 1
                if ch.data['height'].notna().any():
                    res['nontrivial'].append(obs.case_hash(pipeline.case_digest(case), stage))
        except Exception as e:       # decided by C08
            res['counters']['crashed'] = 1
            tags.add('crashed:' + type(e).__name__)
    if desc['k'].get('prm_only_over') if 'k' in desc else False:
        if not res['counters'].get('crashed') and ch.data['height'].notna().any():
            tags.add('one_height_degenerate_min_range')
    if case['scene'].get('index') is not None and 'msa_crop_active' in tags:
        tags.add('nonunique_index_labels_with_crop')
    if not res['counters'].get('crashed') and ch.n_groups is not None and ch.n_groups > 10 and (ch.groups['ncomp'] > 1).sum() >= 2:
        tags.add('gt10_groups_two_splits')
    if not res['counters'].get('crashed') and ch.n_slices is not None and ch.n_slices % 100 == 0 and ch.n_slices:
        tags.add('slices_multiple_of_100')
        if (ch.groups['ncomp'] > 1).any():
            tags.add('slices_multiple_of_100_with_split')
    if not res['counters'].get('crashed') and ch.n_groups is not None and (ch.groups['ncomp'] > 1).sum() >= 2:
        gsplit = ch.groups[ch.groups['ncomp'] > 1].sort_values('height_base')
        low = ch.data.loc[ch.data['group_id'] == gsplit['cluster_id'].iloc[0], 'layer_id'].astype(int)
        if len(low) and sorted(set(low % 10)) != list(range(low.nunique())):
            tags.add('two_split_groups_lower_component_ids_not_0_based')
    if case['scene'].get('assemble') == 'checked_concat' and 'msa_crop_active' in tags:
        tags.add('checked_concat_with_crop')
    if case['scene'].get('index_kind') == 'range' and 'msa_crop_active' in tags:
        tags.add('range_index_not_from_0_with_crop')
    if 'gt100_slices' in tags and any(t.startswith('group_split_in') for t in tags):
        tags.add('gt100_slices_with_split')
    viol += [b for b in rec.broken if b['prop'] == 'C05']
    res['counters']['contract_evaluations'] = rec.counts.get('ncomp_from_gmm', 0)
    res['viol'] = [v for v in viol if v['prop'] == 'C05'][:20]
    res['tags'] = sorted(tags) + ['fam:' + desc['fam']]
    if desc['i'] % 83 == 0 and not res['counters'].get('crashed'):
        res['sample'] = pipeline.small_sample(case, {'n_slices': ch.n_slices, 'n_groups': ch.n_groups, 'n_layers': ch.n_layers,
                                                     'group_ncomp': ch.groups['ncomp'].tolist()[:8]})
    return res
