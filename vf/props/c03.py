"""C03 - Sky coverage: hit counts, percentages and oktas are exactly what the hits imply."""
import numpy as np
from .. import scenes, obs, pipeline, oracles

ID, NUM, LEVEL = 'C03', 3, 'exploration'
RULE = ('Evaluation = one table row (slice/group/layer) recounted from the per-hit assignment: n_hits == number '
        'of distinct (ceilo, dt) among the member hits, perc == n/total*100 with total = distinct (ceilo, dt) in '
        'the chunk, okta == 0 if n<=MAX_HITS_OKTA0, else 8 if total-n<=MAX_HOLES_OKTA8, else the okta nearest to '
        '8n/total clipped to 1..7 (either neighbour at an exact half), code prefix == WMO abbreviation; along '
        'scenes that differ only in the count the okta never decreases. Workloads: generated multi-ceilometer '
        'scenes with multi-hit measurements, and ALL (count, total) pairs up to a bound for one flat layer x '
        'MAX_HITS_OKTA0 in {0,1,3} x MAX_HOLES_OKTA8 in {0,1,2} with uneven sampling over 1-3 ceilometers and '
        'optional double hits of one measurement, instrument names equal up to blanks / case sharing time stamps; the total is also recounted from the INPUT rows (documented crop applied); generated scenes include measurements reporting one hit type twice. Non-trivial = row with >=2 member rows; distinct = hash of '
        '(rows, parameters, which, set id).')
ASSUMPTIONS = ['membership of a hit in a set is read from the per-hit id columns of CeiloChunk.data',
               'exact half-okta ties accept both neighbours (documentation and numpy rounding disagree there)']
REQUIRED = ['fam:keys', 'fam:refdata', 'multi_hit_measurement_in_set', 'coincident_stamps_2ceilos', 'n_eq_MAX_HITS_OKTA0',
            'holes_eq_MAX_HOLES_OKTA8', 'half_okta_tie'] + ['okta%d' % i for i in range(9)]
TMAX = {'quick': 13, 'thorough': 40}
EXHAUSTIVE = {'quick': 'all (count, total) pairs with total <= 13 x 9 buffer settings (engineered part only)',
              'thorough': 'all (count, total) pairs with total <= 40 x 9 buffer settings (engineered part only)'}
SIZES = {'quick': 350, 'thorough': 8000}


def plan(tier, seed):
    out = []
    for i in range(SIZES[tier]):
        out.append({'fam': 'generic', 's': seed, 'p': NUM, 'i': i,
                    'k': {'big': i % 9 == 0, 'rich': i % 2 == 0, 'anom': i % 3 == 1}})
    nref = 17 * (2 if tier == 'quick' else 24)
    for i in range(nref):        # real-world reference scenes of the repository (perturbed), random parameters
        out.append({'fam': 'refdata', 's': seed, 'p': NUM, 'i': 700000 + i,
                    'k': {'file': i % 17, 'perturb': (i // 17) % 5, 'default_prms': i < 17}})
    for i in range(12 if tier == 'quick' else 200):
        out.append({'fam': 'keys', 's': seed, 'p': NUM, 'i': 800000 + i})
    j = 0
    for T in list(range(1, TMAX[tier] + 1)) + ([16, 32] if tier == 'quick' else [48, 64, 80]):   # 16 | T: exact half-okta ties
        for o0 in (0, 1, 3):
            for h8 in (0, 1, 2):
                out.append({'fam': 'ct', 'T': T, 'o0': o0, 'h8': h8, 's': seed, 'p': NUM, 'i': 500000 + j})
                j += 1
    return out


def weight(d):
    return 0.12 * (d['T'] + 1) if d['fam'] == 'ct' else 0.3


def ct_scene(rng, T, c, nce, double):
    """T measurements spread unevenly over nce ceilometers; c of them see the layer at ~1000 ft;
    `double` of those hold two hits of the layer (types 1 and 2)."""
    # names: plain / equal up to blanks / equal up to case
    names = [['c0', 'c1', 'c2'], ['CL31', 'CL31 ', ' CL31'], ['rwy', 'RWY', 'Rwy']][T % 3][:nce]
    meas = []
    for m in range(T):
        ci = 0 if nce == 1 else int(min(nce - 1, (m * m) % (nce + 1)))   # uneven split
        # with several instruments, consecutive measurements share their time stamp (T even) or every third does
        if nce > 1 and (T % 2 == 0 or m % 3 == 0):
            meas.append((names[ci], -float(m // 2) * 30.0))
        else:
            meas.append((names[ci], -float(m) * 15.0 - ci * 0.5))
    meas = list(dict.fromkeys(meas))
    k = 0
    while len(meas) < T:                      # coincident stamps collapsed: top up
        meas.append((names[0], -1e4 - k))
        k += 1
    seen = set(rng.permutation(T)[:c].tolist())
    dbl = set(sorted(seen)[:double])
    rows = []
    for j, (cn, t) in enumerate(meas):
        if j in seen:
            rows.append([cn, t, 1000.0 + (j % 5), 1])
            if j in dbl:
                rows.append([cn, t, 1012.0 + (j % 3), 2])
        else:
            rows.append([cn, t, float('nan'), 0])
    rows = scenes.order_rows(rng, rows, str(rng.choice(scenes.ORDERS)))
    return {'rows': rows, 'names': names, 'order': 'mixed', 'fam': 'count_total'}


def check_ct(desc):
    T, o0, h8 = desc['T'], desc['o0'], desc['h8']
    rng = scenes.rng_for(desc['s'], NUM, desc['i'])
    nce = 1 + (T + o0 + h8) % 3
    nce = min(nce, T)
    double = int(rng.integers(0, 3))
    viol, tags = [], set()
    evals = 0
    nontrivial = []
    oktas = []
    sample = None
    for c in range(0, T + 1):
        sc = ct_scene(scenes.rng_for(desc['s'], NUM, desc['i'], c), T, c, nce, min(double, c))
        case = {'scene': sc, 'prm': {'call': {'MAX_HITS_OKTA0': o0, 'MAX_HOLES_OKTA8': h8}, 'glob': {}}}
        run = pipeline.execute(case, contracts=False, msgs=False)
        if run.exc is not None:
            tags.add('crashed:' + type(run.exc).__name__)
            continue
        ch = run.chunk
        nv = len(viol)
        e, nt = oracles.check_counts(ch, viol, tags)
        for v in viol[nv:]:
            v.update(count=c, total=T, n_ceilos=nce, double_hits=min(double, c))
        evals += e
        if len(ch.layers) > 1:
            tags.add('ct_scene_split')       # cannot happen for a 17-ft thick layer; observed, not judged
        ok = int(ch.layers['okta'].iloc[0]) if len(ch.layers) else 0
        oktas.append(ok)
        if len(ch.layers) and int(ch.layers['n_hits'].iloc[0]) != c:
            oracles.V(viol, 'C03', 'layer of the engineered scene does not hold the c measurements that see it',
                      count=c, total=T, got=int(ch.layers['n_hits'].iloc[0]))
        if c >= 2:
            nontrivial.append(obs.case_hash('ct', T, c, o0, h8, nce))
        if sample is None and c == max(1, T // 2):
            sample = {'workload': '(count,total)', 'total': T, 'count': c, 'n_ceilos': nce,
                      'MAX_HITS_OKTA0': o0, 'MAX_HOLES_OKTA8': h8, 'okta': ok,
                      'layers': ch.layers[['n_hits', 'perc', 'okta', 'code']].to_dict('records')}
    for a in range(1, len(oktas)):
        if oktas[a] < oktas[a - 1]:
            oracles.V(viol, 'C03', 'okta decreases when the count grows', total=T, count=a, oktas=oktas,
                      MAX_HITS_OKTA0=o0, MAX_HOLES_OKTA8=h8)
    return {'evals': evals, 'nontrivial': nontrivial, 'tags': sorted(tags) + ['fam:count_total'], 'viol': viol[:20],
            'counters': {'runs': T + 1, 'monotone_chains': 1}, 'sample': sample}


def keys_case(desc):
    """(ceilo, dt) keys that are easy to confuse: names that are prefixes of one another with numeric
    remainders and non-negative integer time stamps ("1"+"12.0" vs "11"+"2.0"), and time stamps of one
    instrument that differ by far less than a microsecond."""
    rng = scenes.rng_for(desc['s'], NUM, desc['i'])
    rows = []
    if desc['i'] % 2 == 0:
        names = ['1', '11', '111', '2', '12', '21'][:int(rng.integers(2, 7))]
        for c in names:
            for t in range(int(rng.integers(8, 25))):
                if rng.uniform() < 0.7:
                    rows.append([c, float(t), 1000.0 + float(rng.integers(0, 30)), 1])
                else:
                    rows.append([c, float(t), float('nan'), 0])
    else:
        names = ['a', 'b']
        step = float(rng.choice([2e-7, 1e-8, 3e-9, 4e-10, 1.1e-13]))
        for ci, c in enumerate(names):
            for t in range(int(rng.integers(10, 30))):
                dt = -100.0 * ci - t * step
                if rng.uniform() < 0.75:
                    rows.append([c, dt, 1500.0 + float(rng.integers(0, 30)), 1])
                else:
                    rows.append([c, dt, float('nan'), 0])
    rows = scenes.order_rows(rng, scenes.dedupe(rows), str(rng.choice(scenes.ORDERS)))
    sc = {'rows': rows, 'names': names, 'order': 'mixed', 'fam': 'keys'}
    return {'scene': sc, 'prm': {'call': {'MAX_HITS_OKTA0': int(rng.choice([0, 3])), 'MAX_HOLES_OKTA8': int(rng.choice([0, 1]))}, 'glob': {}}}


def check(desc):
    if desc['fam'] == 'ct':
        return check_ct(desc)
    case = keys_case(desc) if desc['fam'] == 'keys' else pipeline.materialise(desc)
    run = pipeline.execute(case, msgs=False)
    res = {'evals': 0, 'nontrivial': [], 'counters': {'runs': 1}, 'case': case, 'viol': []}
    if run.exc is not None:
        res['counters']['crashed'] = 1
        res['tags'] = ['crashed:' + type(run.exc).__name__]
        return res
    viol, tags = [], set()
    e, nt = oracles.check_counts(run.chunk, viol, tags)
    res['evals'] = e
    # the total is the number of distinct (ceilometer, time) measurements of the *input* (documented crop applied)
    rows_in, _ = oracles.expected_crop(scenes.frame(case['scene']), obs.effective(case['prm']))
    tot_in = len({(r[0], r[1]) for r in rows_in})
    if tot_in != run.chunk.max_hits_per_layer:
        oracles.V(viol, 'C03', 'total number of measurements != distinct (ceilo, dt) of the input', expected=tot_in,
                  got=int(run.chunk.max_hits_per_layer))
    d = run.chunk.data
    for w in obs.WHICH:
        for cid, n in zip(*np.unique(d[w[:-1] + '_id'].to_numpy().astype(int), return_counts=True)):
            if cid != -1 and n >= 2:
                res['nontrivial'].append(obs.case_hash(pipeline.case_digest(case), w, int(cid)))
    viol += [b for b in run.rec.broken if b['prop'] == 'C03']
    res['viol'] = viol[:20]
    res['tags'] = sorted(tags) + ['fam:' + desc['fam']]
    if desc['i'] % 101 == 0:
        res['sample'] = pipeline.small_sample(case, {'layers': run.chunk.layers[['n_hits', 'perc', 'okta', 'code']].to_dict('records'),
                                                     'total_measurements': int(run.chunk.max_hits_per_layer)})
    return res
