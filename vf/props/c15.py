"""C15 - Input screening rejects exactly the documented conditions, normalises the rest."""
import copy
import warnings
import numpy as np
import pandas as pd
from .. import scenes, obs, oracles

ID, NUM, LEVEL = 'C15', 15, 'exploration'
RULE = ('(Dtype variants include non-native byte order; frames carrying the allows_duplicate_labels=False flag and attrs.) ' 'Evaluation = one object screened by the real utils.check_data_consistency and by CeiloChunk(...), compared '
        'with an independent reference implementation of the six documented refusal conditions evaluated on the '
        'exactly coerced values (not a DataFrame, empty, missing column, duplicated rows, a (ceilo, dt) with both a '
        'type-0 and a non-0 hit, or both a VV and a non-VV hit): raise <=> reference refuses, and the exception is '
        'AmpycloudError; otherwise the result is a new frame with exactly the four required columns, the required '
        'dtypes, values equal to the exact coercion, same row order; the argument is untouched (values, dtypes, '
        'index, columns); a second pass on the result returns an equal frame and emits no column/dtype warning. '
        'Workload: valid generated frames and frames derived from them by a defect injector (dropped column, '
        'duplicated row incl. duplicates that only appear after dtype coercion or after dropping an extra column, '
        'coincident 0/non-0 and VV/non-VV on the same and on different ceilometers, several VV / several type-0 '
        'rows of one measurement with distinct heights, coercible dtypes, extra columns, permuted columns, odd '
        'index, empty, non-DataFrame objects, combinations). Non-trivial = derived by >= 1 defect or dtype change; '
        'distinct = hash of (rows, defects).')
ASSUMPTIONS = ['columns are exactly coercible to the required dtypes (no NaN in type/dt, no lossy casts)']
REFUSE = ['not_a_frame', 'empty', 'missing_column', 'duplicates', 'type0_coincident', 'vv_coincident']
REQUIRED = ['refuse:' + r for r in REFUSE] + ['accept', 'legal_coincidence_other_ceilo', 'duplicate_only_after_coercion',
            'duplicate_only_after_dropping_extra_column', 'several_vv_rows_one_measurement',
            'several_type0_rows_one_measurement', 'dtype_variant', 'dtype_big_endian', 'frame_flag_no_duplicate_labels', 'extra_columns', 'valid_unchanged', 'index_named_like_column', 'signed_zero', 'edited_after_check']
SIZES = {'quick': 3000, 'thorough': 60000}
DEFECTS = ['none', 'none', 'drop_col', 'dup_row', 'dup_after_coercion', 'dup_after_extra_drop', 't0_same', 't0_other',
           'vv_same', 'vv_other', 'two_vv', 'two_t0', 'dtypes', 'dtypes', 'frame_flags', 'extra_cols', 'perm_cols', 'odd_index', 'index_named_like_column', 'signed_zero', 'empty',
           'not_a_frame']


def plan(tier, seed):
    per = 100
    return [{'lo': j * per, 'n': per, 's': seed, 'i': j} for j in range(SIZES[tier] // per)]


# --- reference -------------------------------------------------------------------------------------

def reference(obj):
    """-> ('refuse', reason) | ('accept', rows) on exactly coerced values."""
    if not isinstance(obj, pd.DataFrame):
        return 'refuse', 'not_a_frame'
    if len(obj) == 0:
        return 'refuse', 'empty'
    for c in ('ceilo', 'dt', 'height', 'type'):
        if c not in obj.columns:
            return 'refuse', 'missing_column'
    rows = []
    for c, t, h, k in zip(obj['ceilo'].tolist(), obj['dt'].tolist(), obj['height'].tolist(), obj['type'].tolist()):
        hh = None if h is None or (isinstance(h, float) and h != h) or h is pd.NA else float(h)
        rows.append((str(c), float(t), hh, int(k)))
    if len(set(rows)) != len(rows):
        return 'refuse', 'duplicates'
    per = {}
    for c, t, h, k in rows:
        per.setdefault((c, t), []).append(k)
    for ks in per.values():
        if 0 in ks and any(k != 0 for k in ks):
            return 'refuse', 'type0_coincident'
    for ks in per.values():
        if -1 in ks and any(k != -1 for k in ks):
            return 'refuse', 'vv_coincident'
    return 'accept', rows


def snapshot(obj):
    if not isinstance(obj, pd.DataFrame):
        return repr(obj)[:200]
    return {'cols': [str(c) for c in obj.columns], 'dtypes': [str(t) for t in obj.dtypes],
            'index': [repr(i) for i in obj.index],
            'vals': [[repr(v) for v in obj[c].tolist()] for c in obj.columns],
            'attrs': repr(obj.attrs)}


# --- defect injector -------------------------------------------------------------------------------

def small_scene(rng):
    sc = scenes.gen_scene(rng, nce=int(rng.choice([1, 2, 3])), maxrows=int(rng.choice([3, 10, 40])), anomalies=rng.uniform() < 0.3)
    return scenes.frame(sc)


def inject(rng, df, defect, tags):
    df = df.copy()
    S = pd.StringDtype()

    def addrow(c, t, h, k):
        extra = pd.DataFrame({'ceilo': pd.array([c], dtype=S), 'dt': [float(t)], 'height': [h], 'type': [int(k)]})
        return pd.concat([df, extra], ignore_index=True)
    pick = df.iloc[int(rng.integers(len(df)))]
    if defect == 'drop_col':
        return df.drop(columns=list(rng.choice(['ceilo', 'dt', 'height', 'type'], int(rng.integers(1, 3)), replace=False)))
    if defect == 'dup_row':
        return pd.concat([df, df.iloc[[int(rng.integers(len(df)))]]], ignore_index=rng.uniform() < 0.5)
    if defect == 'dup_after_coercion':
        tags.add('duplicate_only_after_coercion')
        out = df.astype({'ceilo': object, 'dt': object})
        j = int(rng.integers(len(df)))
        row = out.iloc[[j]].copy()
        if rng.uniform() < 0.5:
            out['dt'] = [repr(float(v)) for v in df['dt']]
            row['dt'] = ['%.17g' % float(df['dt'].iloc[j]) + ('' if rng.uniform() < 0.5 else ' ')]
            if row['dt'].iloc[0] == out['dt'].iloc[j]:
                row['dt'] = [' ' + row['dt'].iloc[0]]
        else:
            out['ceilo'] = [7 if v == df['ceilo'].iloc[j] else v for v in df['ceilo']]
            row['ceilo'] = ['7']
        return pd.concat([out, row], ignore_index=True)
    if defect == 'dup_after_extra_drop':
        tags.add('duplicate_only_after_dropping_extra_column')
        out = pd.concat([df, df.iloc[[int(rng.integers(len(df)))]]], ignore_index=True)
        out['station'] = np.arange(len(out))
        return out
    if defect == 't0_same':
        return addrow(pick['ceilo'], pick['dt'], 123.0 if pick['type'] == 0 else np.nan, 1 if pick['type'] == 0 else 0)
    if defect == 't0_other':
        tags.add('legal_coincidence_other_ceilo')
        return addrow('another-ceilo', pick['dt'], np.nan, 0) if pick['type'] != 0 else addrow('another-ceilo', pick['dt'], 77.0, 1)
    if defect == 'vv_same':
        return addrow(pick['ceilo'], pick['dt'], 321.0, 1 if pick['type'] == -1 else -1)
    if defect == 'vv_other':
        tags.add('legal_coincidence_other_ceilo')
        return addrow('another-ceilo', pick['dt'], 321.0, -1) if pick['type'] != -1 else addrow('another-ceilo', pick['dt'], 1.0, 1)
    if defect == 'two_vv':
        tags.add('several_vv_rows_one_measurement')
        out = addrow('vvceilo', 5.0, 300.0, -1)
        df = out
        return addrow('vvceilo', 5.0, 340.0, -1)
    if defect == 'two_t0':
        tags.add('several_type0_rows_one_measurement')
        out = addrow('t0ceilo', 6.0, np.nan, 0)
        df = out
        return addrow('t0ceilo', 6.0, 50.0, 0)
    if defect == 'dtypes':
        tags.add('dtype_variant')
        out = df.copy()
        k = int(rng.integers(10))
        if k == 7:
            # non-native byte order (what binary / FITS / netCDF readers hand over): same values, same kind and size
            tags.add('dtype_big_endian')
            out['dt'] = out['dt'].to_numpy().astype('>f8')
            out['height'] = out['height'].to_numpy().astype('>f8')
        elif k == 8:
            tags.add('dtype_big_endian')
            out['type'] = out['type'].to_numpy().astype('>i8')
            out['height'] = out['height'].to_numpy().astype('>f4').astype('>f8')
        elif k == 9:
            out['type'] = out['type'].to_numpy().astype('>i2')
            out['dt'] = out['dt'].to_numpy().astype('>f8')
            tags.add('dtype_big_endian')
        elif k == 0:
            out['ceilo'] = out['ceilo'].astype(object)
        elif k == 1:
            m = {n: j for j, n in enumerate(sorted(set(df['ceilo'])))}
            out['ceilo'] = [m[v] for v in df['ceilo']]
        elif k == 2:
            out['ceilo'] = out['ceilo'].astype('category')
        elif k == 3:
            out['type'] = out['type'].astype(float if rng.uniform() < 0.5 else np.int8)
        elif k == 4:
            out['dt'] = np.round(out['dt']).astype(np.int64 if rng.uniform() < 0.5 else np.int32)
            out = out.drop_duplicates().reset_index(drop=True)
        elif k == 5:
            out['height'] = out['height'].astype(np.float32).astype(object)
        else:
            out['height'] = [None if v != v else int(v) for v in out['height']]
            out['height'] = out['height'].astype(object)
            out = out.drop_duplicates().reset_index(drop=True)
        return out
    if defect == 'frame_flags':
        # pandas' "no duplicate labels" flag (legal on any uniquely indexed frame; it survives copies)
        out = df.copy()
        if out.index.is_unique:
            out.flags.allows_duplicate_labels = False
            tags.add('frame_flag_no_duplicate_labels')
            out.attrs['source'] = 'reader-x'
        return out
    if defect == 'extra_cols':
        tags.add('extra_columns')
        out = df.copy()
        out['station'] = 'X'
        out[0] = 1.5
        return out
    if defect == 'perm_cols':
        return df[list(rng.permutation(df.columns))]
    if defect == 'odd_index':
        out = df.copy()
        out.index = pd.Index(rng.permutation(len(df)) * 3 - 5) if rng.uniform() < 0.5 else pd.Index(['r%d' % (j // 2) for j in range(len(df))])
        return out
    if defect == 'signed_zero':
        # 0.0 and -0.0 are the same time / height: coincidences and duplicates across the two spellings
        tags.add('signed_zero')
        k = int(rng.integers(5))
        df = addrow('zc', 0.0, 100.0, 1)
        if k == 0:
            return addrow('zc', -0.0, np.nan, 0)          # type 0 next to a hit        -> refuse
        if k == 1:
            return addrow('zc', -0.0, 50.0, -1)           # VV next to a hit            -> refuse
        if k == 2:
            return addrow('zc', -0.0, 100.0, 1)           # duplicated row              -> refuse
        if k == 3:
            df = addrow('zc', 5.0, 0.0, 2)
            return addrow('zc', 5.0, -0.0, 2)             # duplicated row (height)     -> refuse
        return addrow('zd', -0.0, np.nan, 0)              # other instrument            -> legal
    if defect == 'index_named_like_column':
        tags.add('index_named_like_column')
        return df.set_index(str(rng.choice(['dt', 'ceilo'])), drop=False) if rng.uniform() < 0.6 else df.set_index(['ceilo', 'dt'], drop=False)
    if defect == 'empty':
        return df.iloc[0:0] if rng.uniform() < 0.7 else pd.DataFrame()
    if defect == 'not_a_frame':
        return [df.to_numpy(), df.to_dict('list'), None, 'data', df['height'], 42][int(rng.integers(6))]
    return df


def eq_rows(got_df, exp_rows):
    if len(got_df) != len(exp_rows):
        return 'row count %d != %d' % (len(got_df), len(exp_rows))
    for j, (c, t, h, k) in enumerate(zip(got_df['ceilo'].tolist(), got_df['dt'].tolist(), got_df['height'].tolist(),
                                          got_df['type'].tolist())):
        e = exp_rows[j]
        hh = None if h != h else float(h)
        if (str(c), float(t), hh, int(k)) != e:
            return 'row %d: %r != %r' % (j, (c, t, h, k), e)
    return None


def check(desc):
    from ampycloud.utils.utils import check_data_consistency
    from ampycloud.errors import AmpycloudError, AmpycloudWarning
    from ampycloud.data import CeiloChunk
    from ampycloud import hardcoded
    viol, tags = [], set()
    ev = 0
    nt = []
    sample = None
    for j in range(desc['n']):
        rng = scenes.rng_for(desc['s'], NUM, desc['lo'] + j)
        df = small_scene(rng)
        defects = [DEFECTS[int(rng.integers(len(DEFECTS)))]]
        if rng.uniform() < 0.25:
            defects.append(DEFECTS[int(rng.integers(2, len(DEFECTS) - 2))])
        obj = df
        ctags = set()
        try:
            for d in defects:
                if isinstance(obj, pd.DataFrame) and len(obj) and all(c in obj.columns for c in ('ceilo', 'dt', 'height', 'type')):
                    obj = inject(rng, obj, d, ctags)
        except Exception:       # a combination the injector cannot build: skip it, it is not a case
            continue
        try:
            verdict, info = reference(obj)
        except (TypeError, ValueError):
            continue                # not exactly coercible: outside the quantifier
        tags |= ctags if verdict else set()
        before = snapshot(obj)
        wit = dict(defects=defects, case_index=desc['lo'] + j, reference=[verdict, info if verdict == 'refuse' else len(info)])
        for target in ('check_data_consistency', 'CeiloChunk'):
            ev += 1
            with warnings.catch_warnings(record=True) as wlist:
                warnings.simplefilter('always')
                try:
                    res = check_data_consistency(obj) if target == 'check_data_consistency' else CeiloChunk(obj).data
                    raised = None
                except AmpycloudError as e:
                    raised = e
                except Exception as e:      # noqa
                    raised = e
                    if verdict == 'refuse':
                        oracles.V(viol, 'C15', 'refusal signalled by another exception type', target=target,
                                  exc=type(e).__name__, msg=str(e)[:160], **wit)
            if snapshot(obj) != before:
                oracles.V(viol, 'C15', 'the argument was modified', target=target, **wit)
            if verdict == 'refuse':
                tags.add('refuse:' + info)
                if raised is None:
                    oracles.V(viol, 'C15', 'illegal input accepted', target=target, **wit)
                continue
            tags.add('accept')
            if raised is not None:
                oracles.V(viol, 'C15', 'legal input refused', target=target, exc=type(raised).__name__,
                          msg=str(raised)[:200], **wit)
                continue
            if res is obj:
                oracles.V(viol, 'C15', 'result is the argument itself, not a new frame', target=target, **wit)
            cols = [str(c) for c in res.columns][:4] if target == 'CeiloChunk' else [str(c) for c in res.columns]
            if sorted(cols) != ['ceilo', 'dt', 'height', 'type']:
                oracles.V(viol, 'C15', 'result does not have exactly the four required columns', target=target,
                          cols=[str(c) for c in res.columns], **wit)
                continue
            for c, tp in hardcoded.REQ_DATA_COLS.items():
                if res[c].dtype != tp:
                    oracles.V(viol, 'C15', 'result column has the wrong dtype', target=target, col=c,
                              dtype=str(res[c].dtype), **wit)
            d = eq_rows(res, info)
            if d:
                oracles.V(viol, 'C15', 'values / row order changed', target=target, diff=d, **wit)
            if target == 'check_data_consistency':
                with warnings.catch_warnings(record=True) as w2:
                    warnings.simplefilter('always')
                    res2 = check_data_consistency(res)
                bad = [str(x.message) for x in w2 if issubclass(x.category, AmpycloudWarning)
                       and ('Column' in str(x.message))]
                if bad:
                    oracles.V(viol, 'C15', 'checking an already-checked frame warns about a column or dtype',
                              warnings=bad[:3], **wit)
                if snapshot(res2) != snapshot(res):
                    oracles.V(viol, 'C15', 'checking an already-checked frame changes it', **wit)
                if defects == ['none'] and snapshot(res)['vals'] == snapshot(obj)['vals']:
                    tags.add('valid_unchanged')
                # history: the vetted frame is edited in place (same shape) into an illegal one and screened again
                if len(res) >= 2:
                    ed = res
                    which_edit = int(rng.integers(3))
                    def setcell(r, c, v):
                        ed.iloc[r, ed.columns.get_loc(c)] = v
                    c0, t0_ = str(ed['ceilo'].iloc[0]), float(ed['dt'].iloc[0])
                    setcell(1, 'ceilo', c0)
                    setcell(1, 'dt', t0_)
                    if which_edit == 0:                                   # duplicated row
                        setcell(1, 'height', ed['height'].iloc[0])
                        setcell(1, 'type', int(ed['type'].iloc[0]))
                    elif which_edit == 1:                                 # type 0 next to a hit
                        setcell(0, 'type', 1)
                        setcell(0, 'height', 10.0)
                        setcell(1, 'type', 0)
                        setcell(1, 'height', np.nan)
                    else:                                                 # VV next to a hit
                        setcell(0, 'type', 2)
                        setcell(0, 'height', 10.0)
                        setcell(1, 'type', -1)
                        setcell(1, 'height', 20.0)
                    try:
                        v2, i2 = reference(ed)
                    except (TypeError, ValueError):
                        v2 = None
                    if v2 == 'refuse':
                        tags.add('edited_after_check')
                        ev += 1
                        for target2 in ('CeiloChunk', 'run'):
                            try:
                                with warnings.catch_warnings():
                                    warnings.simplefilter('ignore')
                                    if target2 == 'CeiloChunk':
                                        CeiloChunk(ed)
                                    else:
                                        import ampycloud
                                        ampycloud.run(ed)
                                oracles.V(viol, 'C15', 'a checked frame edited into an illegal one is accepted by chunk construction',
                                          target=target2, edit=['duplicate row', 'type 0 next to a hit', 'VV next to a hit'][which_edit], reason=i2, **wit)
                            except AmpycloudError:
                                pass
                            except Exception as e:      # noqa
                                oracles.V(viol, 'C15', 'refusal signalled by another exception type', target=target2, exc=type(e).__name__, **wit)
                        try:
                            with warnings.catch_warnings():
                                warnings.simplefilter('ignore')
                                check_data_consistency(ed)
                            oracles.V(viol, 'C15', 'a checked frame edited into an illegal one is accepted at the next screening',
                                      edit=['duplicate row', 'type 0 next to a hit', 'VV next to a hit'][which_edit], reason=i2, **wit)
                        except AmpycloudError:
                            pass
                        except Exception as e:      # noqa
                            oracles.V(viol, 'C15', 'refusal signalled by another exception type', exc=type(e).__name__, **wit)
        if defects != ['none']:
            nt.append(obs.case_hash(before, defects))
        if sample is None and verdict == 'refuse' and isinstance(obj, pd.DataFrame):
            sample = {'defects': defects, 'reference': info, 'n_rows': len(obj), 'dtypes': [str(t) for t in obj.dtypes]}
    return {'evals': ev, 'nontrivial': nt, 'tags': sorted(tags), 'viol': viol[:20], 'counters': {'objects': desc['n']},
            'sample': sample if desc['i'] % 5 == 0 else None}
