"""C14 - Any order of stage calls raises AmpycloudError or gives the canonical result."""
import copy
import hashlib
import warnings
import numpy as np
import pandas as pd
from .. import scenes, obs, oracles, pipeline

ID, NUM, LEVEL = 'C14', 14, 'exploration'
OPS = ['find_slices', 'find_groups', 'find_layers', "metarize('slices')", "metarize('groups')", "metarize('layers')",
       'metarize()', "metar_msg('slices')", "metar_msg('groups')", "metar_msg('layers')", 'metar_msg()']
RULE = ('Evaluation = one stage/query call made on a real CeiloChunk in some reachable state, judged against an '
        'executable reference model built from snapshots of the canonical slices-groups-layers run on the same '
        'data. Exactly two outcomes are acceptable: (i) AmpycloudError with the WHOLE observation (three tables, '
        'per-hit id columns, three messages) unchanged - only when a prerequisite is missing, or when layers exist '
        'and the call is find_groups / metarize(groups); (ii) normal return with every table, id column and '
        'message equal to the canonical snapshot of its level assigned by the transition function (so repeating a '
        'permitted stage is idempotent; a find_groups / metarize(groups) that is ACCEPTED while layers exist must '
        'leave the groups table of the canonical run, i.e. with the ncomp column written by find_layers, since '
        'anything else discards part of the layering). The walk is a breadth-first exploration of the implementation\\u2019s reachable '
        'state graph over the 11 operations ' + ', '.join(OPS) + ': a deep copy per edge, and two histories that lead '
        'to bit-identical full internal state (data frame incl. index, tables, flags) share their subtree, which is '
        'sound because the code is deterministic; when the exploration closes, ALL call sequences of ANY length '
        'are covered for that scene (otherwise all sequences up to the depth bound). Scenes exercise group '
        'merging, group splitting, no cloud at all, MSA crops. Non-trivial = the history contains >= 1 permitted '
        'stage; distinct = (scene, state, operation).')
ASSUMPTIONS = ['ampycloud is deterministic given its full internal state (checked by C09), which makes sharing the '
               'subtree of identical states sound']
REQUIRED = ['grouping_after_layering', 'reslicing_after_grouping', 'repeated_stage', 'scene_with_merge', 'scene_with_split',
            'scene_without_groups', 'closure_reached', 'refusal_prerequisite_missing',
            'scene_two_heights_group_above_trimodal', 'scene_levels_disagree_ncd_nsc', 'fam:regroup']
SIZES = {'quick': 160, 'thorough': 3000}
EXHAUSTIVE = {'quick': 'for every scene whose reachable state graph closed (counter `closed` == `scenes`): all call sequences of ANY length over the 11 operations',
              'thorough': 'for every scene whose reachable state graph closed (counter `closed` == `scenes`): all call sequences of ANY length over the 11 operations'}
DEPTH = {'quick': 9, 'thorough': 14}
MAX_STATES = 300
LEVELS = obs.WHICH


def plan(tier, seed):
    out = []
    for i in range(SIZES[tier]):
        fam = ['bimodal', 'chain', 'generic', 'generic', 'degenerate'][i % 5]
        k = {'third': i % 2 == 0} if fam == 'bimodal' else ({'kind': ['all_nan', 'single_valid', 'one_height'][i % 3]} if fam == 'degenerate' else {'rich': False, 'maxrows': 250})
        if fam in ('bimodal', 'chain'):
            k.update({'lookback': 100, 'bins': 0})
        out.append({'fam': fam, 's': seed, 'p': NUM, 'i': i, 'k': k, 'depth': DEPTH[tier]})
    for i in range(8 if tier == 'quick' else 150):
        out.append({'fam': 'regroup', 's': seed, 'p': NUM, 'i': 300000 + i, 'k': {}, 'depth': DEPTH[tier]})
        out.append({'fam': 'nsc_levels', 's': seed, 'p': NUM, 'i': 400000 + i, 'k': {}, 'depth': DEPTH[tier]})
    for i in range(6 if tier == 'quick' else 100):
        out.append({'fam': 'tri_plus_two', 's': seed, 'p': NUM, 'i': 100000 + i, 'k': {}, 'depth': DEPTH[tier]})
        out.append({'fam': 'manysplit', 's': seed, 'p': NUM, 'i': 200000 + i, 'k': {}, 'depth': 6})
    return out


def weight(d):
    return {'bimodal': 3.0, 'chain': 2.0, 'manysplit': 10.0, 'tri_plus_two': 4.0}.get(d['fam'], 1.0)


def apply(ch, op):
    if op.startswith('find_'):
        return getattr(ch, op)()
    return eval('ch.' + op)        # noqa: S307 - op comes from the fixed OPS list above


def full_state(ch):
    """Bit-exact hash of the complete internal state of a chunk."""
    h = hashlib.sha256()
    for name in sorted(vars(ch)):
        v = getattr(ch, name)
        h.update(name.encode())
        if isinstance(v, pd.DataFrame):
            h.update(repr(list(v.columns)).encode() + repr([str(t) for t in v.dtypes]).encode())
            h.update(repr(list(v.index)).encode())
            o = obs.table_obs(v) if name != '_data' else {c: obs._col(v[c].tolist(), v[c].dtype) for c in v.columns}
            obs._canon(o, h)
        elif isinstance(v, dict):
            obs._canon(v, h)
        else:
            h.update(repr(v).encode())
    return h.hexdigest()[:24]


def observation(ch):
    from ampycloud.errors import AmpycloudError
    o = {}
    for w in LEVELS:
        o[w] = obs.table_obs(getattr(ch, w))
    d = ch.data
    o['ids'] = {c: obs._col(d[c].tolist(), d[c].dtype) for c in obs.IDCOLS if c in d.columns}
    o['id_dtypes'] = {c: str(d[c].dtype) for c in obs.IDCOLS if c in d.columns}
    o['input_cols'] = {c: obs._col(d[c].tolist(), d[c].dtype) for c in ['ceilo', 'dt', 'height', 'type']}
    o['msgs'] = {}
    for w in LEVELS:
        try:
            o['msgs'][w] = ch.metar_msg(w)
        except AmpycloudError:
            o['msgs'][w] = '<AmpycloudError>'
        except Exception as e:      # noqa
            o['msgs'][w] = '<%s>' % type(e).__name__
    return o


def successor(state, op):
    """Reference transition function on the abstract state (slices, groups, layers) with values
    None / 'S1' / 'S2', None / 'G1' / 'G2', None / 'L'.  Returns (kind, new_state):
    kind 'refuse' (only refusal acceptable), 'either' (refusal or successor), 'ok' (only successor)."""
    s, g, l = state
    if op == 'find_slices':
        return 'ok', ('S1', g, l)
    if op == 'find_groups':
        if s is None:
            return 'refuse', state
        if l is not None:
            # accepted although layers exist: nothing of the layering may be lost, so the groups table must
            # still be the one of the canonical run (ncomp filled in by find_layers), not the pre-layering one
            return 'either', ('S2', 'G2', l)
        return 'ok', ('S2', 'G1', l)
    if op == 'find_layers':
        if g is None:
            return 'refuse', state
        return 'ok', (s, 'G2', 'L')
    if op in ("metarize('slices')", 'metarize()'):
        if s is None:
            return 'refuse', state
        return 'ok', ('S1', g, l)
    if op == "metarize('groups')":
        if g is None:
            return 'refuse', state
        if l is not None:
            return 'either', (s, 'G2', l)
        return 'ok', (s, 'G1', l)
    if op == "metarize('layers')":
        if l is None:
            return 'refuse', state
        return 'ok', (s, g, 'L')
    lvl = {"metar_msg('slices')": 0, "metar_msg('groups')": 1, "metar_msg('layers')": 2, 'metar_msg()': 2}[op]
    if state[lvl] is None:
        return 'refuse', state
    return 'ok', state


def check(desc):
    from ampycloud.data import CeiloChunk
    from ampycloud.errors import AmpycloudError
    case = pipeline.materialise(desc)
    df = scenes.frame(case['scene'])
    viol, tags = [], set()
    res = {'evals': 0, 'nontrivial': [], 'counters': {}, 'viol': viol, 'case': case}
    with obs.installed(case['prm']), warnings.catch_warnings():
        warnings.simplefilter('ignore')
        call = copy.deepcopy(case['prm']['call']) or None
        # ---- canonical run and its snapshots
        try:
            can = CeiloChunk(df, prms=copy.deepcopy(call))
            snaps = {}
            can.find_slices()
            o = observation(can)
            snaps['S1'], snaps['slice_id'], snaps['msg_s'] = o['slices'], o['ids']['slice_id'], o['msgs']['slices']
            can.find_groups()
            o = observation(can)
            snaps['S2'], snaps['G1'], snaps['group_id'], snaps['msg_g'] = o['slices'], o['groups'], o['ids']['group_id'], o['msgs']['groups']
            can.find_layers()
            o = observation(can)
            snaps['G2'], snaps['L'], snaps['layer_id'], snaps['msg_l'] = o['groups'], o['layers'], o['ids']['layer_id'], o['msgs']['layers']
            snaps['input_cols'] = o['input_cols']
            snaps['id_dtypes'] = o['id_dtypes']
        except Exception as e:      # noqa - decided by C08
            res['tags'] = ['crashed:' + type(e).__name__]
            res['counters']['crashed'] = 1
            return res
        if can.n_groups < can.n_slices:
            tags.add('scene_with_merge')
        if (can.groups['ncomp'] > 1).any():
            tags.add('scene_with_split')
        if can.n_groups == 0:
            tags.add('scene_without_groups')
        if {snaps['msg_s'], snaps['msg_g'], snaps['msg_l']} >= {'NCD', 'NSC'}:
            tags.add('scene_levels_disagree_ncd_nsc')
        if desc['fam'] == 'tri_plus_two' and (can.groups['ncomp'] == 3).any() and (can.groups['ncomp'] == 2).any():
            tags.add('scene_two_heights_group_above_trimodal')

        def predicted(st):
            s, g, l = st
            p = {'slices': snaps.get(s), 'groups': snaps.get(g), 'layers': snaps.get(l), 'ids': {}, 'msgs': {},
                 'input_cols': snaps['input_cols']}
            if s is not None:
                p['ids']['slice_id'] = snaps['slice_id']
            if g is not None:
                p['ids']['group_id'] = snaps['group_id']
            if l is not None:
                p['ids']['layer_id'] = snaps['layer_id']
            p['id_dtypes'] = {c: snaps['id_dtypes'][c] for c in p['ids']}
            for w, key, tab in zip(LEVELS, ('msg_s', 'msg_g', 'msg_l'), (s, g, l)):
                p['msgs'][w] = snaps[key] if tab is not None else '<AmpycloudError>'
            return p

        # ---- breadth-first walk over the reachable internal states
        root = CeiloChunk(df, prms=copy.deepcopy(call))
        o0 = observation(root)
        d = obs.first_diff(predicted((None, None, None)), o0)
        if d is not None:
            oracles.V(viol, 'C14', 'fresh chunk is not in the empty state', first_difference=list(d))
        seen = {full_state(root): 0}
        frontier = [(root, (None, None, None), [], o0)]
        depth = 0
        closed = False
        n_edges = 0
        while frontier and depth < desc['depth'] and len(seen) < MAX_STATES and len(viol) < 5:
            nxt = []
            for ch, st, hist, o_before in frontier:
                for op in OPS:
                    c2 = copy.deepcopy(ch)
                    kind, st2 = successor(st, op)
                    exc = None
                    try:
                        ret = apply(c2, op)
                    except AmpycloudError as e:
                        exc = e
                    except Exception as e:      # noqa
                        exc = e
                    o_after = observation(c2)
                    n_edges += 1
                    res['evals'] += 1
                    h2 = hist + [op]
                    wit = dict(history=h2, state_before=list(st))
                    if any(x.startswith('find_') and True for x in hist + [op]) :
                        pass
                    if exc is not None and not isinstance(exc, AmpycloudError):
                        oracles.V(viol, 'C14', 'call raises something else than AmpycloudError', exc=type(exc).__name__,
                                  msg=str(exc)[:160], **wit)
                        continue
                    if exc is not None:
                        if kind == 'ok':
                            oracles.V(viol, 'C14', 'permitted call refused', msg=str(exc)[:160], **wit)
                            continue
                        dd = obs.first_diff(o_before, o_after)
                        if dd is not None:
                            oracles.V(viol, 'C14', 'a refused call changed earlier results / per-hit assignments',
                                      first_difference=list(dd), **wit)
                            continue
                        tags.add('refusal_prerequisite_missing' if kind == 'refuse' else 'grouping_after_layering')
                        st2 = st
                    else:
                        if kind == 'refuse':
                            oracles.V(viol, 'C14', 'call succeeds although its prerequisite is missing', **wit)
                            continue
                        dd = obs.first_diff(predicted(st2), o_after)
                        if dd is not None:
                            oracles.V(viol, 'C14', 'tables / assignments / messages differ from the canonical run',
                                      first_difference=list(dd), state_after=list(st2), **wit)
                            continue
                        if op.startswith('metar_msg'):
                            lvl = {"metar_msg('slices')": 'msg_s', "metar_msg('groups')": 'msg_g'}.get(op, 'msg_l')
                            if ret != snaps[lvl]:
                                oracles.V(viol, 'C14', 'message differs from the canonical one', got=ret,
                                          expected=snaps[lvl], **wit)
                        if kind == 'either':
                            tags.add('grouping_after_layering')
                        if op == 'find_slices' and st[1] is not None:
                            tags.add('reslicing_after_grouping')
                        if op.startswith('find_') and st2 == st and op != 'find_slices' or (op == 'find_slices' and st[0] == 'S1'):
                            tags.add('repeated_stage')
                    fs = full_state(c2)
                    if fs not in seen:
                        seen[fs] = depth + 1
                        nxt.append((c2, st2, h2, o_after))
                        if any(x.startswith('find_') for x in h2):
                            res['nontrivial'].append(obs.case_hash(desc['i'], fs))
            frontier = nxt
            depth += 1
        if not frontier and not viol:
            closed = True
            tags.add('closure_reached')
    res['counters'] = {'distinct_internal_states': len(seen), 'edges_judged': n_edges, 'depth_reached': depth,
                       'closed': int(closed), 'scenes': 1}
    res['tags'] = sorted(tags) + ['fam:' + desc['fam']]
    res['viol'] = viol[:10]
    if desc['i'] % 7 == 0:
        res['sample'] = pipeline.small_sample(case, {'distinct_internal_states': len(seen), 'edges_judged': n_edges,
                                                     'closure_reached': closed, 'canonical_msgs': [snaps['msg_s'], snaps['msg_g'], snaps['msg_l']],
                                                     'example_history': ['find_slices', 'find_groups', 'find_layers', 'find_groups', 'find_layers']})
    return res
