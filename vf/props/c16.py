"""C16 - Ceilometer names are labels only: renaming them changes nothing."""
import copy
import numpy as np
from .. import scenes, obs, oracles, twin, pipeline

ID, NUM, LEVEL = 'C16', 16, 'exploration'
RULE = ('Evaluation = one (scene, bijectively renamed scene) pair run through the real pipeline with the exclusion '
        'list mapped accordingly, rows in the same order; the canonical observations must be bit-identical apart '
        'from the ceilo column, which must equal the mapped original. Renamings: order-reversing maps, names that '
        'sort differently as strings ("10" < "9"), names that are substrings / regex-like patterns of one another, '
        'empty-ish, very long and unicode names, permutations of the same name set. Workload: 1-8 ceilometers with '
        'coincident and distinct time stamps x exclusion subsets (incl. fall-back) x look-back/percentile '
        'settings; engineered scenes where simultaneous hits of several instruments straddle the look-back cut. '
        'Non-trivial = >= 2 ceilometers; distinct = hash of (rows, parameters, mapping).')
ASSUMPTIONS = ['names are non-empty distinct strings', 'names containing a NUL character: known finding D15 (five deterministic cases per run; other control characters are in the regular pools)']
REQUIRED = ['order_reversing', 'substring_names', 'regex_like_names', 'numeric_string_names', 'exclusion_mapped',
            'exclusion_fallback', 'lookback_lt100_coincident', 'permutation_of_same_names', 'exclusion_entry_absent_but_similar', 'tie_at_cut_between_instruments', 'instrument_vanishes_in_the_crop', 'control_char_names', 'name_with_nul']
SIZES = {'quick': 420, 'thorough': 8000}
TARGETS = [
    ('numeric_string_names', ['9', '10', '11', '100', '2', '1', '20', '3']),
    ('substring_names', ['PAY', 'PAYERNE', 'PAYERNE-2', 'AY', 'P', 'ERN', 'NE-2', 'Y']),
    ('regex_like_names', ['a.c', 'abc', '.*', 'a|b', '[ab]', 'a+', '^a', 'b$']),
    ('case_variant_names', ['Alpha', 'ALPHA', 'alpha', 'Bravo', 'bravo', 'BRAVO', 'aLPHA', 'Charlie']),
    ('emptyish_names', [' ', '  ', '_', '-', '.', ',', ';', '0']),
    ('control_char_names', ['a\tb', 'a\nb', '\x7f', 'a\rb', '\x01', '\x1b[0m', 'a\\b', '"q"']),
    ('long_unicode_names', ['Zürich-' + 'x' * 50, 'Genève', 'Sion✈', 'Bâle', 'Ünter', 'ß', 'é', 'è']),
]


# known finding D15: names containing a NUL character (trailing: never equal to themselves; embedded: equal to any
# other name with the same prefix in pandas' hash tables)
NUL_NAMES = ['%s\x00', '\x00', 'CL31-A\x00\x00', '%s\x00', 'a\x00b']


def plan(tier, seed):
    return [{'s': seed, 'i': i} for i in range(SIZES[tier])] + [{'s': seed, 'i': SIZES[tier] + j, 'nul': j} for j in range(len(NUL_NAMES))]


def check(desc):
    rng = scenes.rng_for(desc['s'], NUM, desc['i'])
    i = desc['i']
    nce = int(rng.choice([2, 2, 3, 4, 6, 8]))
    if desc.get('nul') is not None:
        sc = scenes.gen_scene(rng, nce=2, maxrows=200)
        prm = {'call': {'MSA': None}, 'glob': {}}
        if desc['nul'] == 3:
            prm['call']['EXCLUDE_FOR_BASE_HEIGHT_CALC'] = [sorted(set(r[0] for r in sc['rows']))[0]]
        i = 1                      # none of the engineered extras below
    elif i % 3 == 0:
        sc = scenes.tie_cut_scene(rng) if i % 2 else scenes.close_chain_scene(rng, nce=3)
        if sc['fam'] == 'tiecut':
            # the look-back that makes the cut fall between two simultaneous hits of different instruments
            prm = {'call': {'BASE_LVL_LOOKBACK_PERC': sc.pop('lookback'), 'BASE_LVL_HEIGHT_PERC': float(rng.choice([0, 0, 1, 100])),
                            'MIN_SEP_VALS': [100.0], 'MIN_SEP_LIMS': []}, 'glob': {}}
        else:
            prm = {'call': pipeline.base_prms(rng, sc, {'exclude': 'rand' if i % 4 else None, 'lookback': [50, 41, 20, 100][i % 4]}), 'glob': {}}
    else:
        sc = scenes.gen_scene(rng, nce=nce, maxrows=350)
        prm = scenes.gen_prms(rng, sc, rich=(i % 5 == 0))
        if i % 2 and 'EXCLUDE_FOR_BASE_HEIGHT_CALC' not in prm['call']:
            prm['call']['EXCLUDE_FOR_BASE_HEIGHT_CALC'] = [n for n in sc['names'] if rng.uniform() < 0.5]
        if i % 4 == 1:
            prm['call']['BASE_LVL_LOOKBACK_PERC'] = float(rng.choice([50, 30, 10]))
    if i % 7 == 4 and len(set(r[0] for r in sc['rows'])) >= 2:
        # an instrument that vanishes from the chunk: only hits of type >= 2, all above MSA + buffer (legal, warn-only)
        hs_ = scenes.heights_of(sc)
        top = float(hs_.max()) if len(hs_) else 1000.0
        vname = ['m-vanish', 'a-vanish', 'z-vanish'][i % 3]
        sc['rows'] = sc['rows'] + [[vname, -11.0 * t_ - 0.37, top + 5000.0 + 10 * t_, 2] for t_ in range(4)]
        sc['names'] = list(sc['names']) + [vname]
        prm['call']['MSA'] = top + 100.0
        prm['call']['MSA_HIT_BUFFER'] = 1000.0
        present = sorted(set(r[0] for r in sc['rows']) - {vname})
        prm['call']['EXCLUDE_FOR_BASE_HEIGHT_CALC'] = [present[int(rng.integers(len(present)))]]
        vanish = True
    else:
        vanish = False
    if i % 5 == 2:
        # an exclusion entry that names no instrument of the chunk but equals one up to case / blanks
        present = sorted(set(r[0] for r in sc['rows']))
        pick = present[int(rng.integers(len(present)))]
        for cand in (pick.upper(), pick.lower(), pick.swapcase(), pick + ' ', ' ' + pick, pick.title()):
            if cand not in present:
                prm['call']['EXCLUDE_FOR_BASE_HEIGHT_CALC'] = list(prm['call'].get('EXCLUDE_FOR_BASE_HEIGHT_CALC') or []) + [cand]
                break
    eff = obs.effective(prm)
    viol, tags = [], set()
    res = {'evals': 0, 'nontrivial': [], 'counters': {'runs': 0}, 'viol': viol}
    if scenes.empties_chunk(sc, eff):
        res['tags'] = ['skipped_empty_after_crop']
        return res
    names = sorted(set(r[0] for r in sc['rows']))
    # --- build the renaming
    kind, pool = TARGETS[int(rng.integers(len(TARGETS)))]
    mode = i % 4
    if mode == 0:          # order-reversing: i-th smallest name -> i-th largest new name
        new = sorted(pool[:len(names)], reverse=True) if len(names) <= len(pool) else None
        tags.add('order_reversing')
    elif mode == 1:        # permutation of the same names
        new = [names[j] for j in np.roll(np.arange(len(names)), 1)]
        kind = 'permutation_of_same_names'
    else:
        new = [pool[j] for j in rng.permutation(len(pool))[:len(names)]] if len(names) <= len(pool) else None
    if new is None or len(set(new)) != len(names):
        new = ['n%02d' % j for j in range(len(names))][::-1]
    if desc.get('nul') is not None:
        nn = NUL_NAMES[desc['nul']]
        new = [nn % names[0] if '%s' in nn else nn] + names[1:]
        if desc['nul'] == 4:
            new[1] = 'a\x00c'
        kind = 'name_with_nul'
    mp = dict(zip(names, new))
    tags.add(kind)
    sc2 = dict(sc, rows=[[mp[r[0]], r[1], r[2], r[3]] for r in sc['rows']], names=[mp.get(n, n) for n in sc['names']])
    prm2 = copy.deepcopy(prm)
    ex = prm['call'].get('EXCLUDE_FOR_BASE_HEIGHT_CALC')
    if ex:
        # names of the list that do not occur in the data get fresh names that do not occur either
        prm2['call']['EXCLUDE_FOR_BASE_HEIGHT_CALC'] = [mp.get(n, 'absent-' + str(k)) for k, n in enumerate(ex)]
        tags.add('exclusion_mapped')
        if any(n not in mp and n.strip().lower() in {m.strip().lower() for m in mp} for n in ex):
            tags.add('exclusion_entry_absent_but_similar')
    o1, e1 = twin.observe_run(scenes.frame(sc), prm)
    o2, e2 = twin.observe_run(scenes.frame(sc2), prm2)
    res['counters']['runs'] = 2
    if e1 is not None:
        res['tags'] = ['crashed:' + type(e1).__name__]
        res['counters']['crashed'] = 1
        return res
    res['evals'] = 1
    if len(names) >= 2:
        res['nontrivial'].append(obs.case_hash(sc['rows'], prm, mp))
    if e2 is not None:
        oracles.V(viol, 'C16', 'renamed scene raises', mapping=mp, **twin.exc_info(e2))
    else:
        c1 = o1['data']['data'].pop('ceilo')
        c2 = o2['data']['data'].pop('ceilo')
        if [mp[c] for c in c1] != c2:
            oracles.V(viol, 'C16', 'ceilo column is not the mapped original', mapping=mp)
        d = obs.first_diff(o1, o2)
        if d is not None:
            oracles.V(viol, 'C16', 'result changes under a one-to-one renaming of the ceilometers', mapping=mp,
                      first_difference=list(d), exclusion=ex, lookback=eff['BASE_LVL_LOOKBACK_PERC'],
                      msg=o1['msgs']['layers'], msg_renamed=o2['msgs']['layers'])
    # coverage classes
    if ex:
        if set(names) <= set(ex):       # every instrument excluded: the fall-back is taken for every set
            tags.add('exclusion_fallback')
    if eff['BASE_LVL_LOOKBACK_PERC'] < 100:
        stamps = {}
        for r in sc['rows']:
            stamps.setdefault(r[1], set()).add(r[0])
        if any(len(v) > 1 for v in stamps.values()):
            tags.add('lookback_lt100_coincident')
    if sc.get('fam') == 'tiecut':
        tags.add('tie_at_cut_between_instruments')
    if vanish:
        tags.add('instrument_vanishes_in_the_crop')
    res['tags'] = sorted(tags)
    res['case'] = {'scene': sc, 'prm': prm, 'mapping': mp}
    if desc['i'] % 37 == 0:
        res['sample'] = pipeline.small_sample({'scene': sc, 'prm': prm}, {'mapping': mp, 'msg': o1['msgs']['layers']})
    return res
