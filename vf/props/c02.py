"""C02 - Lowest cloud layer and ceiling are never suppressed; NCD/NSC mean what they say."""
from . import _msg

ID, NUM, LEVEL = 'C02', 2, 'exploration'
RULE = ('Evaluation = one message + its table + the high-cloud flag + the input frame. Oracle: with R = rows of '
        'okta>=1 and base<MSA, first group == code of R[0], the first row of R with okta>=5 is among the '
        'groups, every group is the code of a listed row; if R is empty the message is NSC iff a row of '
        'okta>=1 sits at/above the MSA or the flag is set, else NCD, and NCD requires that the input hits '
        'above MSA+buffer (counted from the input frame) do not exceed MAX_HITS_OKTA0. Workloads as C01 '
        '(generated scenes, engineered okta/MSA scenes through the pipeline, exhaustive okta tables fed to '
        'the real metar_msg). Non-trivial = table has >=1 row or hits were cropped.')
ASSUMPTIONS = ['table-driven cases inject the table/flag/MSA into a processed chunk through private attributes',
               'heights in [0, 1e5) ft; parameter leaves keep their documented meaning']
REQUIRED = ['ceiling_after_2_lower', 'nsc_by_layer_at_or_above_msa', 'nsc_by_flag_only',
            'ncd_with_zero_okta_rows', 'n_above_eq_MAX_HITS_OKTA0_nothing_reportable', 'msg:NCD', 'msg:NSC', 'fam:flat', 'fam:generic', 'late_msa_edit', 'tables_n3']
EXHAUSTIVE = {'quick': 'all okta tables (0..8) of <=3 layers x 2 height sets x all MSA positions x flag (table-driven part only)',
              'thorough': 'all okta tables (0..8) of <=4 layers x 2 height sets x all MSA positions x flag (table-driven part only)'}
weight = _msg.weight


def plan(tier, seed):
    return _msg.plan(NUM, tier, seed)


def check(desc):
    return _msg.check(desc, ('C02',))
