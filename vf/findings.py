"""Mechanism predicates of the known findings (keyed by mechanism, never by seed / hash / values)."""


def chunk_empty_after_crop(v):
    """D8: every row of the frame is a type >= 2 hit above MSA+buffer, the crop drops them all."""
    return v.get('clause') == 'exception on valid input' and v.get('empties_chunk') is True


def negative_denormal_base(v):
    """D12: a negative base so small that base/100 underflows to -0.0 is coded 000 instead of -01."""
    if v.get('clause') not in ('base coded upward', 'code digits != floored base', 'contract:height2code'):
        return False
    b = v.get('base', v.get('val'))
    return isinstance(b, float) and -1e-300 < b < 0


def name_with_nul(v):
    """D15: pandas/NumPy treat names holding a NUL character inconsistently - a scalar ending in NUL never equals
    itself in `column == name` (fixed-width conversion drops trailing NULs: the instrument gets 0 hits), and the
    hash tables behind duplicated()/isin()/unique() read strings up to the first NUL (distinct names collide)."""
    if v.get('clause') not in ('result changes under a one-to-one renaming of the ceilometers', 'renamed scene raises'):
        return False
    mp = v.get('mapping') or {}
    return any(isinstance(n, str) and '\x00' in n for n in mp.values())


def big_endian_frame_repr(v):
    """D16: the function-call logger formats its arguments eagerly (str(DataFrame)); for a frame of more than
    display.max_rows (60) rows holding a column in non-native byte order pandas' row truncation (take) raises
    ValueError 'Big-endian buffer not supported', before ampycloud's own dtype coercion is reached."""
    return (v.get('clause') == 'variant frame raises' and v.get('variant') == 'dtype_big_endian'
            and 'Big-endian buffer not supported' in str(v.get('msg', ''))
            and str(v.get('where')).startswith('inner_deco:'))       # innermost ampycloud frame = the logging decorator
