"""Mechanism predicates of the known findings (keyed by mechanism, never by seed / hash / values)."""


def chunk_empty_after_crop(v):
    """D8: every row of the frame is a type >= 2 hit above MSA+buffer, the crop drops them all."""
    return v.get('clause') == 'exception on valid input' and v.get('empties_chunk') is True
