"""Mechanism predicates of the known findings (keyed by mechanism, never by seed / hash / values)."""


def chunk_empty_after_crop(v):
    """D8: every row of the frame is a type >= 2 hit above MSA+buffer, the crop drops them all."""
    return v.get('clause') == 'exception on valid input' and v.get('empties_chunk') is True


def negative_denormal_base(v):
    """D12: a negative base so small that base/100 underflows to -0.0 is coded 000 instead of -01."""
    if v.get('clause') not in ('base coded upward', 'code digits != floored base', 'contract:height2code'):
        return False
    b = v.get('base', v.get('val'))
    return isinstance(b, float) and -1e-300 < b < 0
