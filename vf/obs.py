"""Running the real code on a case and taking canonical observations ("digests") of the result."""
import copy
import hashlib
import contextlib
import warnings
import numpy as np
import pandas as pd

from . import scenes

WHICH = ['slices', 'groups', 'layers']
IDCOLS = ['slice_id', 'group_id', 'layer_id']
_DEFAULTS = None


def defaults():
    global _DEFAULTS
    if _DEFAULTS is None:
        # parsed independently of ampycloud.dynamic (so that nothing the code under test does to its
        # own copy of the defaults can reach this reference)
        import os
        import ampycloud
        from ruamel.yaml import YAML
        pth = os.path.join(os.path.dirname(ampycloud.__file__), 'prms', 'ampycloud_default_prms.yml')
        with open(pth, encoding='utf-8') as fh:
            _DEFAULTS = YAML(typ='safe').load(fh)
    return copy.deepcopy(_DEFAULTS)


def frame_snapshot(obj):
    """Deep, comparison-friendly snapshot of a caller's frame (values, dtypes, index, columns, attrs)."""
    if not isinstance(obj, pd.DataFrame):
        return repr(obj)[:200]
    return {'cols': [repr(c) for c in obj.columns], 'dtypes': [str(t) for t in obj.dtypes],
            'index': [repr(i) for i in obj.index], 'index_type': type(obj.index).__name__,
            'vals': [[repr(v) for v in obj[c].tolist()] for c in obj.columns],
            'attrs': repr(obj.attrs), 'flags': repr(obj.flags)}


def effective(prm):
    """The effective parameters of a case = defaults, global overrides (whole top-level entries
    replaced), per-call overrides (merged key by key, unknown keys ignored)."""
    eff = defaults()
    for k, v in (prm.get('glob') or {}).items():
        eff[k] = copy.deepcopy(v)

    def merge(ref, new):
        for k, v in new.items():
            if k not in ref:
                continue
            if isinstance(v, dict):
                merge(ref[k], v) if isinstance(ref[k], dict) else None
            else:
                ref[k] = copy.deepcopy(v)
    merge(eff, prm.get('call') or {})
    return eff


@contextlib.contextmanager
def installed(prm):
    """Install the global part of a parameter set; always restore the packaged defaults."""
    import ampycloud
    from ampycloud import dynamic
    ampycloud.reset_prms()
    try:
        for k, v in (prm.get('glob') or {}).items():
            dynamic.AMPYCLOUD_PRMS[k] = copy.deepcopy(v)
        yield
    finally:
        ampycloud.reset_prms()


def run(df, prm, quiet=True):
    """ampycloud.run() on a frame with a parameter set, warnings silenced."""
    import ampycloud
    with installed(prm):
        with warnings.catch_warnings():
            if quiet:
                warnings.simplefilter('ignore')
            call = copy.deepcopy(prm.get('call')) if prm.get('call') else None
            return ampycloud.run(df, prms=call)


# ------------------------------------------------------------------------------------------------
# canonical observation


def _col(values, dtype):
    """JSON-able list for a column; floats stay floats (repr round-trips exactly)."""
    kind = getattr(dtype, 'kind', 'O')
    out = []
    for v in values:
        if v is None or v is pd.NA:
            out.append(None)
        elif isinstance(v, (bool, np.bool_)):
            out.append(bool(v))
        elif isinstance(v, (int, np.integer)):
            out.append(int(v))
        elif isinstance(v, (float, np.floating)):
            out.append(float(v))
        else:
            out.append(str(v))
    return out


def table_obs(tab):
    if tab is None:
        return None
    return {'cols': [str(c) for c in tab.columns], 'dtypes': [str(t) for t in tab.dtypes],
            'index': [int(i) if isinstance(i, (int, np.integer)) else str(i) for i in tab.index],
            'data': {str(c): _col(tab[c].tolist(), tab[c].dtype) for c in tab.columns}}


def observe(chunk, msgs=True, ceilo=True):
    """Canonical observation of a chunk: tables, per-hit data (by position), messages, flag."""
    from ampycloud.errors import AmpycloudError
    o = {}
    for w in WHICH:
        o[w] = table_obs(getattr(chunk, w))
    d = chunk.data
    cols = ['ceilo', 'dt', 'height', 'type'] + [c for c in IDCOLS if c in d.columns]
    if not ceilo:
        cols = cols[1:]
    o['data'] = {'cols': cols, 'dtypes': [str(d[c].dtype) for c in cols],
                 'data': {c: _col(d[c].tolist(), d[c].dtype) for c in cols}}
    o['flag'] = bool(chunk.clouds_above_msa_buffer)
    if msgs:
        o['msgs'] = {}
        for w in WHICH:
            try:
                o['msgs'][w] = chunk.metar_msg(w)
            except AmpycloudError:
                o['msgs'][w] = '<AmpycloudError>'
        o['flag_after_msgs'] = bool(chunk.clouds_above_msa_buffer)        # asking for a message is a pure query
    return o


def _canon(x, h):
    if isinstance(x, dict):
        h.update(b'{')
        for k in sorted(x):
            h.update(str(k).encode())
            h.update(b':')
            _canon(x[k], h)
        h.update(b'}')
    elif isinstance(x, (list, tuple)):
        h.update(b'[')
        for v in x:
            _canon(v, h)
            h.update(b',')
        h.update(b']')
    elif isinstance(x, float):
        h.update(b'f' + (b'nan' if x != x else x.hex().encode()))
    elif isinstance(x, bool):
        h.update(b'b1' if x else b'b0')
    else:
        h.update(repr(x).encode())


def ohash(o):
    h = hashlib.sha256()
    _canon(o, h)
    return h.hexdigest()[:20]


def first_diff(a, b, path=''):
    """Path + values of the first difference between two observations (None if bit-identical)."""
    if type(a) is not type(b):
        return (path, _short(a), _short(b))
    if isinstance(a, dict):
        for k in sorted(set(a) | set(b)):
            if k not in a or k not in b:
                return (path + '/' + str(k), _short(a.get(k, '<missing>')), _short(b.get(k, '<missing>')))
            d = first_diff(a[k], b[k], path + '/' + str(k))
            if d:
                return d
        return None
    if isinstance(a, list):
        if len(a) != len(b):
            return (path + '/len', len(a), len(b))
        for i, (x, y) in enumerate(zip(a, b)):
            d = first_diff(x, y, path + '[%d]' % i)
            if d:
                return d
        return None
    if isinstance(a, float):
        if (a != a and b != b) or (a == b and np.signbit(a) == np.signbit(b)):
            return None
        return (path, a, b)
    return None if a == b else (path, _short(a), _short(b))


def _short(x):
    s = repr(x)
    return s if len(s) < 200 else s[:200] + '...'


def case_hash(*parts):
    h = hashlib.sha256()
    for p in parts:
        _canon(p, h)
    return h.hexdigest()[:16]
