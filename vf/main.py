"""./check <Cxx> <quick|thorough> [--replay <file>]   (also: --worker, internal)"""
import os
import sys


def main(argv):
    if len(argv) >= 1 and argv[0] == '--worker':
        from . import runner
        runner.worker_main(argv[1], argv[2], argv[3])
        return 0
    if len(argv) >= 1 and argv[0] == 'setup':
        from . import env
        ok = env.ensure_deps()
        print('deps installed' if ok else 'icontract could not be installed offline')
        return 0 if ok else 1
    if not argv:
        print(__doc__)
        return 2
    pid = argv[0].upper()
    tier = os.environ.get('VERIF_TIER', 'quick')
    replay = None
    rest = argv[1:]
    while rest:
        a = rest.pop(0)
        if a in ('quick', 'thorough'):
            tier = a
        elif a == '--replay':
            replay = rest.pop(0)
        else:
            print('unknown argument', a)
            return 2
    seed = int(os.environ.get('VERIF_SEED', '0') or 0)
    from . import runner
    return runner.run_property(pid, tier, seed, replay=replay)


if __name__ == '__main__':
    sys.exit(main(sys.argv[1:]))
