"""Environment pinning + import of the code under test from the *current working tree*.

The code under test is imported from $VERIF_SRC (default /repo/src).  Nothing in ampycloud is
compiled, so "rebuild from the working tree" is: import the current sources in a fresh interpreter.
Every worker is a fresh interpreter; `setup()` asserts where ampycloud was actually loaded from.
"""
import os
import sys
import hashlib
import subprocess

VERIF_DIR = os.path.dirname(os.path.dirname(os.path.abspath(__file__)))
SRC = os.environ.get('VERIF_SRC', '/repo/src')
DEPS = os.path.join(VERIF_DIR, '.deps')

PINNED_ENV = {
    'OMP_NUM_THREADS': '1', 'OPENBLAS_NUM_THREADS': '1', 'MKL_NUM_THREADS': '1',
    'NUMEXPR_NUM_THREADS': '1', 'MPLBACKEND': 'Agg', 'PYTHONHASHSEED': '0',
    'AMPYCLOUD_VERIF': '1', 'PIP_NO_INDEX': '1',
}


def child_env(extra=None):
    env = dict(os.environ)
    env.update(PINNED_ENV)
    pp = [VERIF_DIR, SRC]
    if os.path.isdir(DEPS):
        pp.append(DEPS)
    env['PYTHONPATH'] = os.pathsep.join(pp)
    env['VERIF_SRC'] = SRC
    if extra:
        env.update(extra)
    return env


def setup():
    """Called first thing in every worker: silence logging noise, check provenance of ampycloud."""
    for k, v in PINNED_ENV.items():
        if k != 'PYTHONHASHSEED':
            os.environ.setdefault(k, v)
    if SRC not in sys.path:
        sys.path.insert(0, SRC)
    if os.path.isdir(DEPS) and DEPS not in sys.path:
        sys.path.append(DEPS)
    import logging
    logging.disable(logging.CRITICAL)
    import ampycloud
    got = os.path.realpath(os.path.dirname(os.path.dirname(ampycloud.__file__)))
    if got != os.path.realpath(SRC):
        raise RuntimeError(f'ampycloud imported from {got}, expected {SRC}')
    return ampycloud


def tree_identity():
    """git HEAD + hash of the working-tree diff of the repository under test."""
    root = os.path.dirname(os.path.realpath(SRC))
    out = {'src': SRC}
    try:
        out['head'] = subprocess.run(['git', '-C', root, 'rev-parse', 'HEAD'], capture_output=True,
                                     text=True, timeout=30).stdout.strip()
        diff = subprocess.run(['git', '-C', root, 'diff', 'HEAD', '--', 'src'], capture_output=True,
                              timeout=30).stdout
        out['diff_sha'] = hashlib.sha256(diff).hexdigest()[:16]
        out['dirty'] = bool(diff)
    except Exception as e:  # not a git tree (self-test copies)
        out['head'] = 'n/a'
        out['note'] = repr(e)[:80]
    h = hashlib.sha256()
    for dp, dn, fn in sorted(os.walk(os.path.join(SRC, 'ampycloud'))):
        dn.sort()
        for f in sorted(fn):
            if f.endswith(('.py', '.yml', '.mplstyle')):
                h.update(f.encode())
                with open(os.path.join(dp, f), 'rb') as fh:
                    h.update(fh.read())
    out['src_sha'] = h.hexdigest()[:16]
    return out


def ensure_deps():
    """Offline install of icontract next to the repository's interpreter (git-ignored .deps)."""
    if os.path.isdir(os.path.join(DEPS, 'icontract')):
        return True
    os.makedirs(DEPS, exist_ok=True)
    r = subprocess.run(['/venv/bin/python', '-m', 'pip', 'install', '--quiet', '--no-index',
                        '--find-links', '/opt/veriftools/wheels', '--target', DEPS, 'icontract'],
                       capture_output=True, text=True, timeout=600)
    return r.returncode == 0 and os.path.isdir(os.path.join(DEPS, 'icontract'))


import contextlib


@contextlib.contextmanager
def debug_logging():
    """Run a block with the ampycloud loggers at DEBUG level (records go to a NullHandler): the logging
    configuration is a dimension of the environment that no property may depend on."""
    import logging
    lg = logging.getLogger('ampycloud')
    old_level, old_disable = lg.level, logging.root.manager.disable
    h = logging.NullHandler()
    lg.addHandler(h)
    lg.setLevel(logging.DEBUG)
    logging.disable(logging.NOTSET)
    try:
        yield
    finally:
        lg.removeHandler(h)
        lg.setLevel(old_level)
        logging.disable(old_disable)
